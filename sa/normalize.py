# -*- coding: utf-8 -*-
"""
De-refactoring pass applied to every module before any rule looks at it: calls to *new* small helper functions (module level or nested;
"new" = the name is not in sa/known_functions.json, the function inventory of the tree the rules were confirmed on) are replaced by the
helper's body, so that a rule sees the same statements whether or not a block was extracted into a helper.

The transformation is meaning-preserving by construction (it is ordinary inlining, done only where the conditions below make it exact);
where a condition fails the call is left alone and the rules see an opaque call, exactly as before. Nothing here decides a property: the
pass only widens the set of spellings under which the rules recognise a construct, and a change of behaviour inside an extracted helper
becomes visible to every rule anchored in the caller.

Conditions (helper): plain positional/keyword parameters, no decorators, not a generator/coroutine, no global/nonlocal, no nested def or
class, not recursive, `return` only in a tail that is a return-ladder (if/elif/else of returns, simple assignments).
Conditions (call site): every parameter receives an argument or a default; an argument is substituted for its parameter when the parameter
is never rebound in the helper and the argument has no side effects (names, attributes, subscripts, constants, operators, calls of a few
pure builtins); otherwise it is bound to a fresh local first, which needs a statement context. Locals of the helper are renamed when the
caller already uses the name. A helper with statements before its returning tail is inlined only where the call is the whole value of a
simple statement (`f(..)`, `x = f(..)`, `a, b = f(..)`, `return f(..)`, `x += f(..)`) or the test of an `if`.
"""
import ast
import copy
import json
import os

_HERE = os.path.dirname(os.path.abspath(__file__))
try:
    with open(os.path.join(_HERE, 'known_functions.json')) as _fh:
        _raw = json.load(_fh)
    KNOWN = {k: set(v['functions']) for k, v in _raw.items()}
    KNOWN_NAMES = {k: set(v['names']) for k, v in _raw.items()}
    KNOWN_FP = {k: v.get('fingerprints', {}) for k, v in _raw.items()}
    KNOWN_LOCALS = {k: v.get('locals', {}) for k, v in _raw.items()}
    KNOWN_REFS = {k: v.get('refs', {}) for k, v in _raw.items()}
    KNOWN_VIEWS = {k: v.get('views', {}) for k, v in _raw.items()}
except FileNotFoundError:  # inventory not generated: the pass is off
    KNOWN = KNOWN_NAMES = None
    KNOWN_FP = {}
    KNOWN_LOCALS = {}
    KNOWN_REFS = {}
    KNOWN_VIEWS = {}

PURE_BUILTINS = {'len', 'tuple', 'list', 'set', 'frozenset', 'dict', 'sorted', 'min', 'max', 'sum', 'abs', 'int', 'bool', 'str', 'range',
                 'enumerate', 'zip', 'reversed', 'isinstance', 'any', 'all', 'divmod', 'float', 'bytes', 'repr', 'hash', 'id', 'type', 'iter'}
MAX_HELPER_STATEMENTS = 60
FUNC = (ast.FunctionDef, ast.AsyncFunctionDef)


def walk_scope(node):
    """nodes of a function's own scope (not nested defs/classes/lambdas; comprehensions included)"""
    todo = list(ast.iter_child_nodes(node))
    while todo:
        n = todo.pop()
        yield n
        if isinstance(n, FUNC + (ast.ClassDef,)):
            continue
        todo.extend(ast.iter_child_nodes(n))


def all_def_names(tree):
    return {n.name for n in ast.walk(tree) if isinstance(n, FUNC)}


def is_pure(e):
    for n in ast.walk(e):
        if isinstance(n, (ast.NamedExpr, ast.Await, ast.Yield, ast.YieldFrom, ast.Lambda)):
            return False
        if isinstance(n, ast.Call):
            if not (isinstance(n.func, ast.Name) and n.func.id in PURE_BUILTINS):
                return False
    return True


def is_simple(e):
    """cheap to repeat: names, constants, attribute / constant-subscript chains"""
    if isinstance(e, (ast.Name, ast.Constant)):
        return True
    if isinstance(e, ast.Attribute):
        return is_simple(e.value)
    if isinstance(e, ast.Subscript):
        return is_simple(e.value) and is_simple(e.slice)
    if isinstance(e, ast.UnaryOp):
        return is_simple(e.operand)
    if isinstance(e, ast.Tuple):
        return all(is_simple(x) for x in e.elts)
    return False


def boolish(e):
    if isinstance(e, ast.Compare):
        return True
    if isinstance(e, ast.UnaryOp) and isinstance(e.op, ast.Not):
        return True
    if isinstance(e, ast.BoolOp):
        return all(boolish(v) for v in e.values)
    if isinstance(e, ast.Constant) and isinstance(e.value, bool):
        return True
    if isinstance(e, ast.Call) and isinstance(e.func, ast.Name) and e.func.id in ('any', 'all', 'isinstance', 'bool', 'callable', 'hasattr'):
        return True
    if isinstance(e, ast.IfExp):
        return boolish(e.body) and boolish(e.orelse)
    return False


def _is_const(e, v):
    return isinstance(e, ast.Constant) and e.value is v


def negate(e):
    if isinstance(e, ast.UnaryOp) and isinstance(e.op, ast.Not):
        return e.operand
    if isinstance(e, ast.Compare) and len(e.ops) == 1:
        flip = {ast.Eq: ast.NotEq, ast.NotEq: ast.Eq, ast.In: ast.NotIn, ast.NotIn: ast.In, ast.Is: ast.IsNot, ast.IsNot: ast.Is,
                ast.Lt: ast.GtE, ast.GtE: ast.Lt, ast.Gt: ast.LtE, ast.LtE: ast.Gt}
        return ast.Compare(left=e.left, ops=[flip[type(e.ops[0])]()], comparators=e.comparators)
    return ast.UnaryOp(op=ast.Not(), operand=e)


def ifexp(test, a, b):
    """`a if test else b`, with the boolean special cases spelled as the and/or/not a maintainer would have written"""
    if _is_const(a, True) and _is_const(b, False):
        return test if boolish(test) else ast.Call(func=ast.Name(id='bool', ctx=ast.Load()), args=[test], keywords=[])
    if _is_const(a, False) and _is_const(b, True):
        return negate(test)
    if boolish(test):
        if _is_const(b, False) and boolish(a):
            return ast.BoolOp(op=ast.And(), values=_flat(ast.And, [test, a]))
        if _is_const(a, True) and boolish(b):
            return ast.BoolOp(op=ast.Or(), values=_flat(ast.Or, [test, b]))
        if _is_const(a, False) and boolish(b):
            return ast.BoolOp(op=ast.And(), values=_flat(ast.And, [negate(test), b]))
        if _is_const(b, True) and boolish(a):
            return ast.BoolOp(op=ast.Or(), values=_flat(ast.Or, [negate(test), a]))
    r = ast.IfExp(test=test, body=a, orelse=b)
    r._synthetic = True
    return r


def _flat(op, values):
    out = []
    for v in values:
        if isinstance(v, ast.BoolOp) and isinstance(v.op, op):
            out.extend(v.values)
        else:
            out.append(v)
    return out


class _Subst(ast.NodeTransformer):
    def __init__(self, mapping):
        self.mapping = mapping

    def visit_Name(self, node):
        r = self.mapping.get(node.id)
        if r is None:
            return node
        if isinstance(r, str):
            return ast.copy_location(ast.Name(id=r, ctx=node.ctx), node)
        if isinstance(node.ctx, ast.Load):
            return copy.deepcopy(r)
        return node


class _Fold(ast.NodeTransformer):
    """after a constant argument was substituted for a parameter: `a if True else b` -> a, `if False: .. else: B` -> B, `not True` -> False"""
    def visit_UnaryOp(self, node):
        self.generic_visit(node)
        if isinstance(node.op, ast.Not) and isinstance(node.operand, ast.Constant) and isinstance(node.operand.value, bool):
            return ast.copy_location(ast.Constant(value=not node.operand.value), node)
        return node

    def visit_IfExp(self, node):
        self.generic_visit(node)
        if isinstance(node.test, ast.Constant) and isinstance(node.test.value, (bool, int)) and not isinstance(node.test.value, str):
            return node.body if node.test.value else node.orelse
        return node

    def visit_If(self, node):
        self.generic_visit(node)
        if isinstance(node.test, ast.Constant) and isinstance(node.test.value, bool):
            blk = node.body if node.test.value else node.orelse
            return blk if blk else ast.copy_location(ast.Pass(), node)
        return node


def subst(node, mapping):
    if not mapping:
        return copy.deepcopy(node)
    out = _Subst(mapping).visit(copy.deepcopy(node))
    if any(isinstance(v, ast.Constant) and isinstance(v.value, bool) for v in mapping.values() if not isinstance(v, str)):
        out = _Fold().visit(out)
    return out


def count_loads(nodes, name):
    k = 0
    for n in nodes:
        for x in ast.walk(n):
            if isinstance(x, ast.Name) and x.id == name and isinstance(x.ctx, ast.Load):
                k += 1
    return k


def terminates(stmts):
    if not stmts:
        return False
    st = stmts[-1]
    if isinstance(st, (ast.Return, ast.Raise)):
        return True
    if isinstance(st, ast.If):
        return terminates(st.body) and terminates(st.orelse)
    return False


def has_return(st):
    if isinstance(st, ast.Return):
        return True
    return any(isinstance(n, ast.Return) for n in walk_scope(st))


def ladder_expr(stmts):
    """a statement list in which every path ends in `return e` (or falls off the end) -> one expression, or None"""
    if not stmts:
        return ast.Constant(value=None)
    st, rest = stmts[0], stmts[1:]
    if isinstance(st, ast.Return):
        return st.value if st.value is not None else ast.Constant(value=None)
    if isinstance(st, ast.If):
        a = ladder_expr(list(st.body) + ([] if terminates(st.body) else rest))
        b = ladder_expr(list(st.orelse) + ([] if st.orelse and terminates(st.orelse) else rest))
        if a is None or b is None:
            return None
        return ifexp(st.test, a, b)
    if isinstance(st, ast.Assign) and len(st.targets) == 1 and isinstance(st.targets[0], ast.Name) and is_pure(st.value):
        name = st.targets[0].id
        for r in rest:  # rebound later: give up
            for n in ast.walk(r):
                if isinstance(n, ast.Name) and n.id == name and not isinstance(n.ctx, ast.Load):
                    return None
        if count_loads(rest, name) > 1 and not is_simple(st.value):
            return None
        tail = ladder_expr(rest)
        return None if tail is None else subst(tail, {name: st.value})
    if isinstance(st, ast.Pass) or (isinstance(st, ast.Expr) and isinstance(st.value, ast.Constant)):
        return ladder_expr(rest)
    return None


def _loads(node, name):
    for n in ast.walk(node):
        if isinstance(n, ast.Name) and n.id == name and isinstance(n.ctx, ast.Load):
            return True
    return False


def _stores(node, name):
    for n in ast.walk(node):
        if isinstance(n, ast.Name) and n.id == name and not isinstance(n.ctx, ast.Load):
            return True
    return False


def _access(st, name):
    """first access of `name` when `st` runs: 'load' (may be read first), 'store' (certainly written first), 'end' (path ends), None"""
    if isinstance(st, (ast.Return, ast.Raise)):
        return 'load' if _loads(st, name) else 'end'
    if isinstance(st, ast.Assign):
        if _loads(st, name):
            return 'load'
        return 'store' if any(_stores(t, name) for t in st.targets) else None
    if isinstance(st, ast.AugAssign):
        # `x op= e` reads x only to produce the next x: it keeps x alive only if something else reads x later
        return 'load' if _loads(st, name) else None
    if isinstance(st, ast.For):
        if _loads(st.iter, name) or _loads(st.target, name):
            return 'load'
        if not _stores(st.target, name) and _scan(st.body, name) == 'load':
            return 'load'
        return 'load' if _scan(st.orelse, name) == 'load' else None
    if isinstance(st, ast.While):
        if _loads(st.test, name) or _scan(st.body, name) == 'load' or _scan(st.orelse, name) == 'load':
            return 'load'
        return None
    if isinstance(st, ast.If):
        if _loads(st.test, name):
            return 'load'
        if isinstance(st.test, ast.NamedExpr) and _stores(st.test.target, name):
            return 'store'
        a, b = _scan(st.body, name), _scan(st.orelse, name)
        if 'load' in (a, b):
            return 'load'
        if a in ('store', 'end') and b in ('store', 'end'):
            return 'store' if 'store' in (a, b) else 'end'
        return None
    if _loads(st, name):
        return 'load'
    if isinstance(st, (ast.AnnAssign, ast.Expr, ast.Delete)) and _stores(st, name):
        return 'store' if not isinstance(st, ast.Expr) else None
    return None


def _scan(stmts, name):
    for st in stmts:
        r = _access(st, name)
        if r:
            return r
    return None


def live_after(stack, name):
    """may the value `name` holds right after statement stack[-1] be read later? stack: [(owner, statements, index)] outermost first"""
    for owner, stmts, idx in reversed(stack):
        r = _scan(stmts[idx + 1:], name)
        if r == 'load':
            return True
        if r in ('store', 'end'):
            return False
        if isinstance(owner, (ast.For, ast.While)) and stmts is owner.body:
            if isinstance(owner, ast.For) and _stores(owner.target, name) and not _loads(owner.iter, name):
                pass  # rebound at the top of the next iteration
            else:
                if isinstance(owner, ast.While) and _loads(owner.test, name):
                    return True
                if _scan(stmts[:idx + 1], name) == 'load':
                    return True
            if _scan(owner.orelse, name) == 'load':
                return True
    return False


def _in_comprehension(fn, name_node):
    for n in walk_scope(fn):
        if isinstance(n, (ast.ListComp, ast.SetComp, ast.DictComp, ast.GeneratorExp)):
            for g in n.generators:
                if any(x is name_node for x in ast.walk(g.target)):
                    return True
    return False


def tail_ok(stmts):
    """every `return` of the tail is in tail position of an if-ladder (not inside a loop / try / with)"""
    for i, st in enumerate(stmts):
        if isinstance(st, ast.Return):
            return i == len(stmts) - 1
        if isinstance(st, ast.If):
            if has_return(st):
                rest = stmts[i + 1:]
                for br in (st.body, st.orelse):
                    if any(has_return(x) for x in br) and not tail_ok(list(br) + ([] if terminates(br) else rest)):
                        return False
                    if not any(has_return(x) for x in br) and rest and not tail_ok(rest):
                        return False
                return True
        elif has_return(st):
            return False
    return True


def tail_statements(stmts, make):
    """the tail with every `return e` replaced by make(e) (a statement list); an if-branch that does not end in return continues with the
    statements after the if"""
    out = []
    for i, st in enumerate(stmts):
        if isinstance(st, ast.Return):
            out.extend(make(st.value if st.value is not None else ast.Constant(value=None)))
            return out
        if isinstance(st, ast.If) and has_return(st):
            rest = stmts[i + 1:]
            body = tail_statements(list(st.body) + ([] if terminates(st.body) else rest), make)
            orelse = tail_statements(list(st.orelse) + ([] if st.orelse and terminates(st.orelse) else rest), make)
            if body and orelse and terminates(body):  # keep the guard-clause shape
                out.append(ast.If(test=st.test, body=body, orelse=[]))
                out.extend(orelse)
            else:
                out.append(ast.If(test=st.test, body=body or [ast.Pass()], orelse=orelse))
            return out
        out.append(st)
    out.extend(make(None))
    return out


class Helper:
    __slots__ = ('comp_targets', 'node', 'params', 'defaults', 'prefix', 'result', 'assigned', 'locals', 'returns_value', 'tail', 'method', 'receiver', 'vararg', 'npos')

    def __init__(self, node):
        self.node = node


def analyse_helper(fn, method=False):
    if isinstance(fn, ast.AsyncFunctionDef):
        return None
    deco = [d.id if isinstance(d, ast.Name) else None for d in fn.decorator_list]
    if deco not in ([], ['staticmethod'], ['classmethod']) or (deco and not method):
        return None
    a = fn.args
    if a.kwarg:
        return None
    body = list(fn.body)
    if body and isinstance(body[0], ast.Expr) and isinstance(body[0].value, ast.Constant) and isinstance(body[0].value.value, str):
        body = body[1:]
    if not body or sum(1 for _ in walk_scope(fn)) > 1500:
        return None
    n_st = 0
    for n in walk_scope(fn):
        if isinstance(n, (ast.Yield, ast.YieldFrom, ast.Await, ast.Global, ast.Nonlocal, ast.ClassDef) + FUNC):
            return None
        if isinstance(n, ast.Call) and isinstance(n.func, ast.Name) and n.func.id == fn.name:
            return None
        if isinstance(n, ast.stmt):
            n_st += 1
    if n_st > MAX_HELPER_STATEMENTS:
        return None
    h = Helper(fn)
    pos = list(a.posonlyargs) + list(a.args)
    if method and deco != ['staticmethod']:
        if not pos or pos[0].arg != ('cls' if deco == ['classmethod'] else 'self'):
            return None
        pos = pos[1:]
    h.method = method and deco != ['staticmethod']
    h.receiver = 'cls' if deco == ['classmethod'] else 'self'
    h.params = [p.arg for p in pos] + [p.arg for p in a.kwonlyargs]
    h.vararg = a.vararg.arg if a.vararg else None
    h.npos = len(pos)
    if h.vararg:
        h.params.append(h.vararg)
    h.defaults = {}
    for p, d in zip(reversed(pos), reversed(a.defaults)):
        h.defaults[p.arg] = d
    for p, d in zip(a.kwonlyargs, a.kw_defaults):
        if d is not None:
            h.defaults[p.arg] = d
    # split: statements without any return, then a return-ladder
    k = 0
    while k < len(body) and not has_return(body[k]):
        k += 1
    h.prefix = body[:k]
    tail = body[k:]
    h.returns_value = bool(tail)
    h.result = ladder_expr(tail) if tail else None
    h.tail = tail
    if tail and h.result is None and not tail_ok(tail):
        return None
    assigned = set()
    comp_targets = set()
    for n in walk_scope(fn):
        if isinstance(n, ast.Name) and not isinstance(n.ctx, ast.Load):
            assigned.add(n.id)
        if isinstance(n, ast.comprehension):
            for t in ast.walk(n.target):
                if isinstance(t, ast.Name):
                    comp_targets.add(t.id)
        if isinstance(n, ast.Lambda):
            comp_targets.update(a.arg for a in ast.walk(n.args) if isinstance(a, ast.arg))
        if isinstance(n, ast.ExceptHandler) and n.name:
            assigned.add(n.name)
    if comp_targets & set(h.params):
        return None
    assigned -= comp_targets - {n.id for n in walk_scope(fn) if isinstance(n, ast.Name) and isinstance(n.ctx, ast.Store) and not _in_comprehension(fn, n)}
    h.assigned = assigned
    h.comp_targets = comp_targets
    h.locals = assigned - set(h.params)
    return h


def bind_args(h, call):
    """-> {param: arg expression} or None"""
    if any(isinstance(x, ast.Starred) for x in call.args) or any(k.arg is None for k in call.keywords):
        return None
    npos = h.npos
    if len(call.args) > npos and not h.vararg:
        return None
    out = {}
    for p, x in zip(h.params[:npos], call.args):
        out[p] = x
    if h.vararg:
        out[h.vararg] = ast.Tuple(elts=list(call.args[npos:]), ctx=ast.Load())
    for k in call.keywords:
        if k.arg in out or k.arg not in h.params:
            return None
        out[k.arg] = k.value
    for p in h.params:
        if p not in out:
            if p not in h.defaults:
                return None
            out[p] = h.defaults[p]
    return out


def relocate(nodes, at):
    for n in nodes:
        for x in ast.walk(n):
            if hasattr(x, 'lineno') or isinstance(x, (ast.expr, ast.stmt)):
                x.lineno = at.lineno
                x.end_lineno = getattr(at, 'end_lineno', at.lineno)
                x.col_offset = at.col_offset
                x.end_col_offset = getattr(at, 'end_col_offset', at.col_offset)
    return nodes


class Inliner:
    def __init__(self, helpers):
        self.helpers = helpers
        self.count = 0
        self.inlined = []
        self.stack = []
        self.owner = None

    # ---- one call ------------------------------------------------------------------------------------------------------
    def expand(self, call, host_names, statement_context, stmt=None):
        """-> (prefix statements, result expression or None) or None when the call must stay"""
        h = self.helpers.get(self.key(call))
        if h is None:
            return None
        args = bind_args(h, call)
        if args is None:
            return None
        mapping = {}
        binds = []
        body_nodes = list(h.prefix) + ([h.result] if h.result is not None else [])
        for p in h.params:
            a = args[p]
            rebound = p in h.assigned
            uses = count_loads(body_nodes, p)
            if rebound and isinstance(a, ast.Name) and a.id == p and isinstance(stmt, ast.Assign) \
                    and any(_stores(t, p) for t in stmt.targets):
                continue  # the caller overwrites its own `p` with the result: the helper's rebinding can act on the caller's variable
            if not rebound and (is_simple(a) or (is_pure(a) and (uses <= 1 or not h.prefix))):
                if not (isinstance(a, ast.Name) and a.id == p):
                    mapping[p] = a
                continue
            if not rebound and uses == 0 and is_pure(a):
                continue
            # needs a binding statement
            if not statement_context:
                return None
            fresh = p if (p not in host_names and not any(p in _names(x) for x in args.values())) else f'{p}__{h.node.name.strip("_")}'
            binds.append(ast.Assign(targets=[ast.Name(id=fresh, ctx=ast.Store())], value=copy.deepcopy(a), lineno=call.lineno))
            if fresh != p:
                mapping[p] = fresh
        if h.prefix and not statement_context:
            return None
        arg_names = set()
        for x in args.values():
            arg_names |= _names(x)
        if h.comp_targets & arg_names:
            return None
        for loc in h.locals:
            if loc not in arg_names and isinstance(stmt, ast.Assign) and any(_stores(t, loc) for t in stmt.targets):
                continue  # the caller's variable of that name is overwritten by this very statement
            if loc in arg_names or (loc in host_names and (not self.stack or live_after(self.stack, loc))):
                mapping[loc] = f'{loc}__{h.node.name.strip("_")}'
        prefix = binds + _flat_stmts(subst(st, mapping) for st in h.prefix)
        result = subst(h.result, mapping) if h.result is not None else None
        if h.tail and result is None:
            if stmt is None or not isinstance(stmt, (ast.Expr, ast.Assign, ast.AugAssign, ast.AnnAssign, ast.Return, ast.If)):
                return None
            if isinstance(stmt, ast.If) and (stmt.orelse or not (stmt.test is call or (isinstance(stmt.test, ast.UnaryOp) and isinstance(stmt.test.op, ast.Not)
                                                                                       and stmt.test.operand is call))):
                return None

            def make(e):
                if e is None:  # fell off the end
                    e = ast.Constant(value=None)
                if isinstance(stmt, ast.If):  # `if helper(..): BODY` -- the body goes where the helper returns something true
                    neg = stmt.test is not call
                    if isinstance(e, ast.Constant):
                        return copy.deepcopy(stmt.body) if bool(e.value) != neg else []
                    t = ast.UnaryOp(op=ast.Not(), operand=e) if neg else e
                    return [ast.If(test=t, body=copy.deepcopy(stmt.body), orelse=[])]
                if isinstance(stmt, ast.Expr):
                    return [] if is_pure(e) else [ast.Expr(value=e)]
                c = copy.copy(stmt)
                c.value = e
                if isinstance(c, ast.Assign):
                    c.targets = copy.deepcopy(stmt.targets)
                    if _self_assignment(c):
                        return []
                return [c]
            tail = _flat_stmts(subst(st, mapping) for st in h.tail)
            prefix = prefix + tail_statements(tail, make)
            relocate(prefix, call)
            self.count += 1
            self.inlined.append(h.node.name)
            return prefix, Ellipsis
        relocate(prefix, call)
        if result is not None:
            relocate([result], call)
        self.count += 1
        self.inlined.append(h.node.name)
        return prefix, result

    # ---- expressions ---------------------------------------------------------------------------------------------------
    def rewrite_pure_calls(self, expr, host_names):
        """replace calls of prefix-less helpers anywhere inside an expression (innermost first)"""
        me = self

        class T(ast.NodeTransformer):
            def visit_Call(self, node):
                self.generic_visit(node)
                if me.key(node) is not None:
                    h = me.helpers[me.key(node)]
                    if not h.prefix and h.result is not None:
                        r = me.expand(node, host_names, False)
                        if r is not None:
                            return r[1]
                return node

            def visit_Lambda(self, node):
                return node
        return T().visit(expr)

    def _tail_helper_test(self, t):
        if isinstance(t, ast.UnaryOp) and isinstance(t.op, ast.Not):
            t = t.operand
        if not self.helper_call(t):
            return False
        h = self.helpers[self.key(t)]
        return bool(h.tail) and h.result is None

    def _find_hoistable(self, node):
        for field, value in ast.iter_fields(node):
            items = value if isinstance(value, list) else [value]
            for i, v in enumerate(items):
                if not isinstance(v, ast.AST):
                    continue
                if self.helper_call(v) and self.helpers[self.key(v)].prefix and self.helpers[self.key(v)].result is not None:
                    return node, field, (i if isinstance(value, list) else None), v
                if isinstance(v, _TRANSPARENT):
                    r = self._find_hoistable(v)
                    if r:
                        return r
        return None

    def key(self, e):
        """name under which the callee of a call is registered as an inlinable helper, or None"""
        if not isinstance(e, ast.Call):
            return None
        f = e.func
        if isinstance(f, ast.Name):
            return f.id if f.id in self.helpers else None
        if isinstance(f, ast.Attribute) and isinstance(f.value, ast.Name) and f.value.id in ('self', 'cls'):
            k = 'self.' + f.attr
            h = self.helpers.get(k)
            # a classmethod body speaks about `cls`: inline it only where the receiver is `cls` too (a static method does not care)
            if h is not None and (h.receiver == f.value.id or not h.method):
                return k
            return None
        return None

    def helper_call(self, e):
        return self.key(e) is not None

    # ---- statements ----------------------------------------------------------------------------------------------------
    def block(self, stmts, host_names):
        out = []
        for i, st in enumerate(stmts):
            self.stack.append((self.owner, stmts, i))
            out.extend(self.statement(st, host_names))
            self.stack.pop()
        return out

    def statement(self, st, host_names):
        if isinstance(st, FUNC + (ast.ClassDef,)):
            return [st]  # handled on their own
        pre = []
        # the call is the whole value of a simple statement
        if isinstance(st, (ast.Expr, ast.Assign, ast.AugAssign, ast.AnnAssign, ast.Return)) and st.value is not None \
                and self.helper_call(st.value):
            st.value.args = [self.rewrite_pure_calls(a, host_names) for a in st.value.args]
            r = self.expand(st.value, host_names, True, st)
            if r is not None:
                pre, res = r
                if res is Ellipsis:  # the statement itself was distributed over the helper's returns
                    return pre
                if isinstance(st, ast.Expr):
                    if res is None or is_pure(res):
                        return pre
                    st.value = res
                    return pre + [st]
                st.value = res if res is not None else ast.Constant(value=None)
                if isinstance(st, ast.Assign) and _self_assignment(st):
                    return pre
                return pre + [st]
        # `if A and helper(..): BODY` (no else) where the helper is a run of statements with early returns: nest, then distribute BODY over
        # the helper's returns
        if isinstance(st, ast.If) and not st.orelse:
            t = st.test
            if isinstance(t, ast.BoolOp) and isinstance(t.op, ast.And) and self._tail_helper_test(t.values[-1]):
                inner = ast.If(test=t.values[-1], body=st.body, orelse=[])
                ast.copy_location(inner, st)
                st.test = t.values[0] if len(t.values) == 2 else ast.BoolOp(op=ast.And(), values=t.values[:-1])
                st.body = [inner]
            elif self._tail_helper_test(t):
                call = t if isinstance(t, ast.Call) else t.operand
                call.args = [self.rewrite_pure_calls(a, host_names) for a in call.args]
                saved, self.owner = self.owner, st
                st.body = self.block(st.body, host_names) or [ast.Pass(lineno=st.lineno, col_offset=st.col_offset)]
                self.owner = saved
                r = self.expand(call, host_names, True, st)
                if r is not None and r[1] is Ellipsis:
                    return r[0]
        # a call of a helper with leading statements somewhere inside the test of an `if` or the value of a simple statement: hoist
        # the statements in front when everything else in that expression is free of side effects
        holder = 'test' if isinstance(st, ast.If) else 'value' if isinstance(st, (ast.Expr, ast.Assign, ast.AugAssign, ast.AnnAssign,
                                                                               ast.Return)) else None
        if holder and getattr(st, holder) is not None:
            for _ in range(4):
                box = ast.Tuple(elts=[getattr(st, holder)], ctx=ast.Load())
                loc = self._find_hoistable(box)
                if loc is None:
                    break
                parent, field, idx, call = loc
                if not _pure_before(box, call):  # something with side effects is evaluated before the helper would run
                    break
                r = self.expand(call, host_names, True)
                if r is None or r[1] is None or r[1] is Ellipsis:
                    break
                pre.extend(r[0])
                _put(parent, field, idx, r[1])
                setattr(st, holder, box.elts[0])
        # remaining helper calls inside the statement's own expressions
        for field, value in ast.iter_fields(st):
            if isinstance(value, ast.expr):
                setattr(st, field, self.rewrite_pure_calls(value, host_names))
            elif isinstance(value, list) and value and isinstance(value[0], ast.expr):
                setattr(st, field, [self.rewrite_pure_calls(v, host_names) for v in value])
            elif isinstance(value, list) and value and isinstance(value[0], ast.stmt):
                saved, self.owner = self.owner, st
                new = self.block(value, host_names) or [ast.Pass(lineno=st.lineno, col_offset=st.col_offset)]
                self.owner = saved
                if len(new) == len(value) and all(a is b for a, b in zip(new, value)):
                    continue  # keep list identity (liveness compares `stmts is owner.body`)
                value[:] = new
            elif isinstance(value, list) and value and isinstance(value[0], (ast.ExceptHandler, ast.withitem, ast.keyword)):
                for v in value:
                    if isinstance(v, ast.ExceptHandler):
                        v.body = self.block(v.body, host_names) or [ast.Pass(lineno=st.lineno, col_offset=st.col_offset)]
                    elif isinstance(v, ast.withitem):
                        v.context_expr = self.rewrite_pure_calls(v.context_expr, host_names)
                    elif isinstance(v, ast.keyword):
                        v.value = self.rewrite_pure_calls(v.value, host_names)
            elif hasattr(ast, 'match_case') and isinstance(value, list) and value and isinstance(value[0], getattr(ast, 'match_case')):
                for v in value:
                    v.body = self.block(v.body, host_names)
        return pre + [st]

    def function(self, fn):
        host_names = _names(fn) | {a.arg for a in ast.walk(fn.args) if isinstance(a, ast.arg)}
        fn.body = self.block(fn.body, host_names) or [ast.Pass(lineno=fn.lineno, col_offset=fn.col_offset)]


def _pure_before(root, target):
    """is every sub-expression of root that Python evaluates before `target` free of side effects? (operands left to right, a call's function and
    earlier arguments before a later argument; the enclosing calls themselves run after their arguments)"""
    def holds(node):
        return any(x is target for x in ast.walk(node))

    def rec(node):
        if node is target:
            return True
        dirty = False
        for ch in ast.iter_child_nodes(node):
            if holds(ch):
                return False if dirty else rec(ch)
            if isinstance(ch, ast.expr) and not is_pure(ch):
                dirty = True
        return True
    return rec(root)


def _flat_stmts(items):
    out = []
    for x in items:
        if isinstance(x, list):
            out.extend(x)
        else:
            out.append(x)
    return out


def _put(parent, field, idx, node):
    if idx is None:
        setattr(parent, field, node)
    else:
        getattr(parent, field)[idx] = node


def _names(node):
    return {n.id for n in ast.walk(node) if isinstance(n, ast.Name)}


def _self_assignment(st):
    if len(st.targets) != 1:
        return False
    t, v = st.targets[0], st.value
    if isinstance(t, ast.Name) and isinstance(v, ast.Name):
        return t.id == v.id
    if isinstance(t, ast.Tuple) and isinstance(v, ast.Tuple) and len(t.elts) == len(v.elts):
        return all(isinstance(a, ast.Name) and isinstance(b, ast.Name) and a.id == b.id for a, b in zip(t.elts, v.elts))
    return False


# ---- new module-level lookup tables -> ladders ---------------------------------------------------------------------------
MAX_TABLE = 12


def _table_value_ok(v):
    return all(isinstance(n, (ast.Constant, ast.Name, ast.Tuple, ast.List, ast.UnaryOp, ast.USub, ast.UAdd, ast.Load, ast.Attribute))
               for n in ast.walk(v))


def new_tables(tree, known_names):
    tables = {}
    for st in tree.body:
        if isinstance(st, ast.Assign) and len(st.targets) == 1 and isinstance(st.targets[0], ast.Name):
            name, v = st.targets[0].id, st.value
        elif isinstance(st, ast.AnnAssign) and isinstance(st.target, ast.Name) and st.value is not None:
            name, v = st.target.id, st.value
        else:
            continue
        if name in known_names or name.startswith('__'):
            continue
        if isinstance(v, ast.Dict) and 0 < len(v.keys) <= MAX_TABLE and all(isinstance(k, ast.Constant) for k in v.keys) \
                and all(_table_value_ok(x) for x in v.values):
            tables[name] = [(k, x) for k, x in zip(v.keys, v.values)]
        elif isinstance(v, (ast.Tuple, ast.List)) and 0 < len(v.elts) <= MAX_TABLE and all(_table_value_ok(x) for x in v.elts):
            tables[name] = [(ast.Constant(value=i), x) for i, x in enumerate(v.elts)]
            tables[name + '/seq'] = True
    if not tables:
        return tables
    # the table must be used read-only: only NAME[..] loads, NAME.get(..), `in NAME`
    for n in ast.walk(tree):
        for ch in ast.iter_child_nodes(n):
            if isinstance(ch, ast.Name) and ch.id in tables:
                ok = False
                if isinstance(ch.ctx, ast.Store) and isinstance(n, (ast.Assign, ast.AnnAssign)) and n in tree.body:
                    ok = True
                elif isinstance(n, ast.Subscript) and n.value is ch and isinstance(n.ctx, ast.Load):
                    ok = True
                elif isinstance(n, ast.Attribute) and n.attr == 'get' and (ch.id + '/seq') not in tables:
                    ok = True
                elif isinstance(n, ast.Compare) and ch in n.comparators and len(n.ops) == 1 and isinstance(n.ops[0], (ast.In, ast.NotIn)):
                    ok = True
                if not ok:
                    tables.pop(ch.id, None)
    return tables


def _ladder(key, pairs, default):
    out = default
    for k, v in reversed(pairs):
        t = ast.Compare(left=copy.deepcopy(key), ops=[ast.Eq()], comparators=[copy.deepcopy(k)])
        out = ast.IfExp(test=t, body=copy.deepcopy(v), orelse=out)
        out._synthetic = True
    return out


class _Tables(ast.NodeTransformer):
    def __init__(self, tables):
        self.tables = tables
        self.count = 0
        self.proven = {}

    def visit_Call(self, node):
        self.generic_visit(node)
        f = node.func
        if isinstance(f, ast.Attribute) and f.attr == 'get' and isinstance(f.value, ast.Name) and f.value.id in self.tables \
                and 1 <= len(node.args) <= 2 and not node.keywords and is_pure(node.args[0]):
            d = node.args[1] if len(node.args) == 2 else ast.Constant(value=None)
            if is_pure(d):
                self.count += 1
                return ast.copy_location(_ladder(node.args[0], self.tables[f.value.id], d), node)
        return node

    def visit_FunctionDef(self, node):
        # names proven to be one of a few constants by a rejecting guard: `if NAME not in (c1, c2, ..): raise ..` (NAME bound once)
        saved = self.proven
        self.proven = dict(saved)
        stores = {}
        for n in ast.walk(node):
            if isinstance(n, ast.Name) and not isinstance(n.ctx, ast.Load):
                stores[n.id] = stores.get(n.id, 0) + 1
            elif isinstance(n, ast.arg):
                stores[n.arg] = stores.get(n.arg, 0) + 1
        for n in ast.walk(node):
            if isinstance(n, ast.If) and isinstance(n.test, ast.Compare) and len(n.test.ops) == 1 and isinstance(n.test.ops[0], ast.NotIn) \
                    and n.body and isinstance(n.body[-1], ast.Raise):
                left = n.test.left
                name = left.target.id if isinstance(left, ast.NamedExpr) else left.id if isinstance(left, ast.Name) else None
                c = n.test.comparators[0]
                if name and stores.get(name) == 1 and isinstance(c, (ast.Tuple, ast.List, ast.Set, ast.Constant)):
                    try:
                        self.proven[name] = set(ast.literal_eval(c))
                    except Exception:
                        pass
        self.generic_visit(node)
        self.proven = saved
        return node

    def visit_Subscript(self, node):
        self.generic_visit(node)
        if isinstance(node.ctx, ast.Load) and isinstance(node.value, ast.Name) and node.value.id in self.tables \
                and not isinstance(node.slice, ast.Slice) and is_pure(node.slice):
            self.count += 1
            pairs = self.tables[node.value.id]
            keys = {k.value for k, _ in pairs}
            if isinstance(node.slice, ast.Name) and self.proven.get(node.slice.id) is not None and self.proven[node.slice.id] <= keys:
                # the key is one of the table's keys here: no miss branch
                live = [(k, v) for k, v in pairs if k.value in self.proven[node.slice.id]]
                return ast.copy_location(_ladder(node.slice, live[:-1], copy.deepcopy(live[-1][1])), node)
            return ast.copy_location(_ladder(node.slice, pairs, node), node)
        return node

    def visit_Compare(self, node):
        self.generic_visit(node)
        if len(node.ops) == 1 and isinstance(node.ops[0], (ast.In, ast.NotIn)) and isinstance(node.comparators[0], ast.Name) \
                and node.comparators[0].id in self.tables:
            name = node.comparators[0].id
            pairs = self.tables[name]
            elts = [copy.deepcopy(v if (name + '/seq') in self.tables else k) for k, v in pairs]
            node.comparators = [ast.Tuple(elts=elts, ctx=ast.Load())]
            self.count += 1
        return node


_TRANSPARENT = (ast.Call, ast.Tuple, ast.List, ast.Subscript, ast.Attribute, ast.BinOp, ast.Compare, ast.keyword, ast.Starred,
                ast.JoinedStr, ast.FormattedValue, ast.UnaryOp, ast.Set)


def _find_synthetic(node):
    """first synthetic conditional expression that is evaluated unconditionally by the statement -> (parent, field, index)"""
    for field, value in ast.iter_fields(node):
        items = value if isinstance(value, list) else [value]
        for i, v in enumerate(items):
            if not isinstance(v, ast.AST):
                continue
            if isinstance(v, ast.IfExp) and getattr(v, '_synthetic', False) and is_pure(v.test):
                return node, field, (i if isinstance(value, list) else None)
            if isinstance(v, _TRANSPARENT):
                r = _find_synthetic(v)
                if r:
                    return r
    return None


def split_statement(st):
    """a simple statement holding a synthetic `a if c else b` -> if c: <st with a> else: <st with b> (recursively)"""
    if not isinstance(st, (ast.Return, ast.Assign, ast.AugAssign, ast.AnnAssign, ast.Expr)):
        return st
    loc = _find_synthetic(st)
    if loc is None:
        return st
    parent, field, idx = loc
    cur = getattr(parent, field)
    node = cur[idx] if idx is not None else cur

    def variant(repl):
        if idx is not None:
            cur[idx] = repl
        else:
            setattr(parent, field, repl)
        c = copy.deepcopy(st)
        if isinstance(c, ast.Assign) and _self_assignment(c):
            return ast.copy_location(ast.Pass(), st)
        return c
    a = variant(node.body)
    b = variant(node.orelse)
    if idx is not None:
        cur[idx] = node
    else:
        setattr(parent, field, node)
    r = ast.If(test=node.test, body=[split_statement(a)], orelse=[split_statement(b)])
    return ast.copy_location(r, st)


class _Split(ast.NodeTransformer):
    def generic_visit(self, node):
        super().generic_visit(node)
        for field, value in ast.iter_fields(node):
            if isinstance(value, list) and value and isinstance(value[0], ast.stmt):
                value[:] = [split_statement(s) for s in value]
        return node


_MUTATORS = {'append', 'add', 'update', 'extend', 'pop', 'remove', 'discard', 'clear', 'insert', 'setdefault', 'popitem', 'sort', 'reverse',
             'difference_update', 'intersection_update', 'symmetric_difference_update'}


def _inline_constants(tree, known_names):
    """a NEW module-level name bound to a small literal collection / constant and only ever read (a constant moved out of a function body) is
    replaced by the literal where it is read, so that rules see `x in (B, N, P)` whether or not the tuple got a name"""
    consts = {}
    for st in tree.body:
        if isinstance(st, ast.Assign) and len(st.targets) == 1 and isinstance(st.targets[0], ast.Name):
            name, v = st.targets[0].id, st.value
        elif isinstance(st, ast.AnnAssign) and isinstance(st.target, ast.Name) and st.value is not None:
            name, v = st.target.id, st.value
        else:
            continue
        if name in known_names or name.startswith('__'):
            continue
        lit = v
        if isinstance(v, ast.Call) and isinstance(v.func, ast.Name) and v.func.id in ('frozenset', 'set', 'tuple') and len(v.args) == 1 and not v.keywords:
            lit = v.args[0]
        if isinstance(lit, (ast.Tuple, ast.List, ast.Set)) and len(lit.elts) <= 16 and all(_table_value_ok(x) for x in lit.elts):
            consts[name] = v
        elif isinstance(lit, ast.Dict) and len(lit.keys) <= 16 and all(k is not None and _table_value_ok(k) for k in lit.keys) and all(_table_value_ok(x) for x in lit.values):
            consts[name] = v
        elif isinstance(v, ast.Constant) and isinstance(v.value, (int, str, float, bool, type(None))):
            consts[name] = v
    if not consts:
        return []
    parents = {}
    for p_ in ast.walk(tree):
        for ch in ast.iter_child_nodes(p_):
            parents[ch] = p_
    for n in ast.walk(tree):
        if isinstance(n, ast.Name) and n.id in consts:
            par = parents.get(n)
            if not isinstance(n.ctx, ast.Load):
                if not (isinstance(par, (ast.Assign, ast.AnnAssign)) and par in tree.body):
                    consts.pop(n.id, None)
            elif isinstance(par, ast.Attribute) and par.attr in _MUTATORS:
                consts.pop(n.id, None)
            elif isinstance(par, ast.Subscript) and par.value is n and not isinstance(par.ctx, ast.Load):
                consts.pop(n.id, None)
        elif isinstance(n, (ast.Global, ast.Nonlocal)):
            for nm in n.names:
                consts.pop(nm, None)
    # a function parameter / local of the same name shadows the constant: leave such names alone
    for fn in ast.walk(tree):
        if isinstance(fn, FUNC):
            bound = {a.arg for a in ast.walk(fn.args) if isinstance(a, ast.arg)} | {x.id for x in ast.walk(fn) if isinstance(x, ast.Name) and not isinstance(x.ctx, ast.Load)}
            for nm in bound & set(consts):
                consts.pop(nm, None)
    if not consts:
        return []
    used = set()

    class T(ast.NodeTransformer):
        def visit_Name(self, node):
            if isinstance(node.ctx, ast.Load) and node.id in consts:
                used.add(node.id)
                return ast.copy_location(copy.deepcopy(consts[node.id]), node)
            return node
    for st in tree.body:
        if isinstance(st, (ast.Assign, ast.AnnAssign)) and any(isinstance(t, ast.Name) and t.id in consts for t in (st.targets if isinstance(st, ast.Assign) else [st.target])):
            continue
        T().visit(st)
    return sorted(used)


def scoped_functions(tree):
    """(scope-qualified name, node) for module-level functions and methods of module-level classes"""
    out = []
    for st in tree.body:
        if isinstance(st, FUNC):
            out.append((st.name, st))
        elif isinstance(st, ast.ClassDef):
            for m in st.body:
                if isinstance(m, FUNC):
                    out.append((f'{st.name}.{m.name}', m))
    return out


def fingerprint(fn):
    """name-free structural summary of a function body: counts of node kinds, attribute names, constants and called names (not the function's own name,
    not local variable names)"""
    c = {}
    for n in ast.walk(fn):
        k = None
        if isinstance(n, ast.Attribute):
            k = 'A:' + n.attr
        elif isinstance(n, ast.Constant) and isinstance(n.value, (int, str)) and not isinstance(n.value, bool):
            k = 'C:' + repr(n.value)[:30]
        elif isinstance(n, ast.Call) and isinstance(n.func, ast.Name):
            k = 'F:' + n.func.id
        elif isinstance(n, (ast.stmt, ast.expr)) and not isinstance(n, (ast.Name, ast.Load, ast.Store)):
            k = 'N:' + type(n).__name__
        if k:
            c[k] = c.get(k, 0) + 1
    c['P:%d' % (len(fn.args.args) + len(fn.args.kwonlyargs))] = 1
    return c


def _similarity(a, b):
    inter = sum(min(a.get(k, 0), b.get(k, 0)) for k in set(a) | set(b))
    union = sum(max(a.get(k, 0), b.get(k, 0)) for k in set(a) | set(b))
    return inter / union if union else 0.0


def _shape(e):
    """coarse, name-free description of an expression (what a variable is bound to / iterated from)"""
    if isinstance(e, ast.Call):
        f = e.func
        return 'Call:' + (f.id if isinstance(f, ast.Name) else f.attr if isinstance(f, ast.Attribute) else '?')
    if isinstance(e, ast.Attribute):
        return 'Attr:' + e.attr
    if isinstance(e, ast.Subscript):
        return 'Sub:' + _shape(e.value)
    if isinstance(e, ast.Constant):
        return 'Const:' + repr(e.value)[:12]
    return type(e).__name__


def local_fingerprints(fn):
    """{local name: multiset of the syntactic contexts it occurs in} for the names bound in the function's own scope (not parameters)"""
    params = {a.arg for a in ast.walk(fn.args) if isinstance(a, ast.arg)}
    parents = {}
    for p_ in walk_scope(fn):
        for field, value in ast.iter_fields(p_):
            for v in (value if isinstance(value, list) else [value]):
                if isinstance(v, ast.AST):
                    parents[id(v)] = (p_, field)
    for field, value in ast.iter_fields(fn):
        for v in (value if isinstance(value, list) else [value]):
            if isinstance(v, ast.AST):
                parents[id(v)] = (fn, field)
    bound = {n.id for n in walk_scope(fn) if isinstance(n, ast.Name) and not isinstance(n.ctx, ast.Load)} - params
    out = {b: {} for b in bound}
    for n in walk_scope(fn):
        if not (isinstance(n, ast.Name) and n.id in bound):
            continue
        par, field = parents.get(id(n), (None, '?'))
        tok = f'{type(n.ctx).__name__[0]}:{type(par).__name__}.{field}'
        if isinstance(par, ast.Attribute):
            tok += ':' + par.attr
            gp = parents.get(id(par), (None, ''))
            if isinstance(gp[0], ast.Call) and gp[1] == 'func':
                tok += '()'
        elif isinstance(par, ast.Compare):
            tok += ':' + '/'.join(type(o).__name__ for o in par.ops)
        elif isinstance(par, (ast.AugAssign, ast.BinOp)):
            tok += ':' + type(par.op).__name__
        elif isinstance(par, ast.Call) and field == 'args':
            f = par.func
            tok += ':' + (f.id if isinstance(f, ast.Name) else f.attr if isinstance(f, ast.Attribute) else '?')
        # what the name is bound to
        stmt, fld = par, field
        hops = 0
        while stmt is not None and not isinstance(stmt, (ast.stmt, ast.comprehension, ast.NamedExpr)) and hops < 4:
            stmt, fld = parents.get(id(stmt), (None, ''))
            hops += 1
        if not isinstance(n.ctx, ast.Load):
            if isinstance(stmt, ast.Assign):
                tok += '=' + _shape(stmt.value)
            elif isinstance(stmt, (ast.For, ast.comprehension)):
                tok += ' in ' + _shape(stmt.iter)
            elif isinstance(stmt, ast.NamedExpr):
                tok += ':=' + _shape(stmt.value)
        d = out[n.id]
        d[tok] = d.get(tok, 0) + 1
    return out


def undo_local_renames(tree, modname):
    """a local variable of a known function that disappeared while a new local with (nearly) the same usage pattern appeared was renamed: rename it back
    inside that function. A consistent renaming never changes behaviour (the old name is checked to be unused in the function), so a wrong guess can
    only make a rule fail to recognise its construct, never hide a change."""
    inv = KNOWN_LOCALS.get(modname)
    if not inv:
        return []
    done = []
    for q, fn in scoped_functions(tree):
        old = inv.get(q)
        if not old:
            continue
        cur = local_fingerprints(fn)
        all_names = {n.id for n in ast.walk(fn) if isinstance(n, ast.Name)} | {a.arg for a in ast.walk(fn.args) if isinstance(a, ast.arg)}
        missing = [o for o in old if o not in all_names]
        fresh = [c for c in cur if c not in old]
        if not missing or not fresh:
            continue
        pairs = sorted(((_similarity(old[o], cur[c]), o, c) for o in missing for c in fresh), reverse=True)
        used_o, used_c = set(), set()
        for sim, o, c in pairs:
            if o in used_o or c in used_c or sim < 0.5:
                continue
            rival = max([s_ for s_, o2, c2 in pairs if (o2 == o) != (c2 == c) and o2 not in used_o and c2 not in used_c] or [0.0])
            if rival > sim - 0.08 and rival >= 0.5:
                continue  # ambiguous
            used_o.add(o)
            used_c.add(c)
            for n in ast.walk(fn):
                if isinstance(n, ast.Name) and n.id == c:
                    n.id = o
            done.append(f'{q}:{c}->{o}')
    return done


# derived views of a molecule that come in look-alike families; which member a function consults is part of its meaning
VIEW_FAMILIES = {
    'adjacency': ('not_special_connectivity',),
    'cis-trans tables': ('_stereo_cis_trans_centers', '_stereo_cis_trans_terminals', '_stereo_cis_trans_counterpart', '_stereo_cis_trans_paths'),
    'allene tables': ('_stereo_allenes_centers', '_stereo_allenes_terminals', '_stereo_allenes_paths'),
    'stereogenic': ('stereogenic_tetrahedrons', 'stereogenic_allenes', 'stereogenic_cis_trans', 'stereogenic_cumulenes'),
    'chiral': ('chiral_tetrahedrons', 'chiral_allenes', 'chiral_cis_trans', '_chiral_morgan'),
    'rings': ('sssr', 'atoms_rings', 'atoms_rings_sizes', 'ring_atoms', 'rings_count', 'connected_components', 'connected_rings', 'skin_graph', 'skin_atoms'),
    'orders': ('atoms_order', 'smiles_atoms_order', 'int_adjacency'),
}
VIEW_NAMES = {v for vs in VIEW_FAMILIES.values() for v in vs}


def view_reads(tree):
    """{scoped function: sorted view attributes it reads on self (or on any object)}"""
    out = {}
    for q, fn in scoped_functions(tree):
        got = sorted({n.attr for n in ast.walk(fn) if isinstance(n, ast.Attribute) and n.attr in VIEW_NAMES and isinstance(n.ctx, ast.Load)})
        if got:
            out[q] = got
    return out


def referrers(tree):
    """{private name: sorted scoped functions that mention it (as a name or an attribute)} for every underscore-prefixed function / method name of the module"""
    fns = scoped_functions(tree)
    private = {q.rsplit('.', 1)[-1] for q, _ in fns if q.rsplit('.', 1)[-1].startswith('_') and not q.rsplit('.', 1)[-1].endswith('__')}
    out = {p_: set() for p_ in private}
    for q, fn in fns:
        for n in ast.walk(fn):
            nm = n.id if isinstance(n, ast.Name) else n.attr if isinstance(n, ast.Attribute) else None
            if nm in out and nm != q.rsplit('.', 1)[-1]:
                out[nm].add(q)
    return {k: sorted(v) for k, v in out.items()}


def undo_private_renames(tree, modname):
    """a PRIVATE function / method of the confirmed tree that is gone while a new one with (nearly) the same body appeared in the same scope was renamed:
    give it its old name back, in the definition and in every reference inside this module, so that the rules find their anchor. Only names that
    start with an underscore (nobody outside the module may rely on them), only unambiguous matches (similarity >= 0.8, runner-up < 0.6)."""
    fps = KNOWN_FP.get(modname)
    if not fps:
        return []
    present = dict(scoped_functions(tree))
    missing = [q for q in fps if q not in present and q.rsplit('.', 1)[-1].startswith('_') and not q.rsplit('.', 1)[-1].endswith('__')]
    if not missing:
        return []
    known_here = set(fps)
    fresh = {q: fn for q, fn in present.items() if q not in known_here and q.rsplit('.', 1)[-1].startswith('_')}
    done = []

    def scope_of(x):
        return x.rsplit('.', 1)[0] if '.' in x else ''
    sims = {(q, q2): _similarity(fps[q], fingerprint(fn)) for q in missing for q2, fn in fresh.items() if scope_of(q) == scope_of(q2)}
    chosen = {}
    # strong matches first (body nearly unchanged), then matches supported by the call sites; always mutual best
    for strong in (True, False):
        now = None if strong else referrers(tree)
        for q in missing:
            if q in chosen:
                continue
            cands = sorted(((v, q2) for (qq, q2), v in sims.items() if qq == q and q2 not in chosen.values()), reverse=True)
            if not cands:
                continue
            best_sim, best = cands[0]
            rival_for_best = max([v for (qq, q2), v in sims.items() if q2 == best and qq != q and qq not in chosen] or [0.0])
            if strong:
                if best_sim >= 0.8 and not (len(cands) > 1 and cands[1][0] >= 0.6) and rival_for_best < 0.6:
                    chosen[q] = best
            else:
                was = set(KNOWN_REFS.get(modname, {}).get(q.rsplit('.', 1)[-1], ()))
                if best_sim >= 0.45 and rival_for_best < best_sim and was and set(now.get(best.rsplit('.', 1)[-1], ())) & was \
                        and not (len(cands) > 1 and cands[1][0] >= best_sim - 0.1):
                    chosen[q] = best
    for q, new_q in chosen.items():
        old, new = q.rsplit('.', 1)[-1], new_q.rsplit('.', 1)[-1]
        is_method = '.' in q
        # a module-level function is referred to by name, a method through an attribute: only that kind of reference is renamed, and the old name must be free there
        if is_method:
            taken = {n.attr for n in ast.walk(tree) if isinstance(n, ast.Attribute)} | {m_.name for c_ in ast.walk(tree) if isinstance(c_, ast.ClassDef) for m_ in c_.body if isinstance(m_, FUNC)}
        else:
            taken = {n.id for n in ast.walk(tree) if isinstance(n, ast.Name)} | {st.name for st in tree.body if isinstance(st, FUNC)}
        if old in taken:
            continue  # the old name is still used for something else
        target = present[new_q]
        target.name = old
        for n in ast.walk(tree):
            if not is_method and isinstance(n, ast.Name) and n.id == new:
                n.id = old
            elif is_method and isinstance(n, ast.Attribute) and n.attr == new:
                n.attr = old
        fresh.pop(new_q)
        done.append(f'{new}->{old}')
    return done


def _functions_postorder(node, out):
    for ch in ast.iter_child_nodes(node):
        _functions_postorder(ch, out)
    if isinstance(node, FUNC):
        out.append(node)


def normalise_module(tree, modname, known=None):
    """inline calls of new helpers and lookups in new constant tables, in place; returns the names of what was inlined"""
    known_names = None
    if known is None:
        if KNOWN is None or modname not in KNOWN:
            return []
        known = KNOWN[modname]
        known_names = KNOWN_NAMES[modname]
    done = []
    if known_names is not None:
        done.extend(undo_private_renames(tree, modname))
        done.extend(undo_local_renames(tree, modname))
        tables = new_tables(tree, known_names)
        if tables:
            t = _Tables(tables)
            t.visit(tree)
            if t.count:
                done.extend(sorted(k for k in tables if not k.endswith('/seq')))
    if known_names is not None:
        done.extend(_inline_constants(tree, known_names))
    done.extend(_inline_helpers(tree, known))
    if done:
        _Split().visit(tree)
        ast.fix_missing_locations(tree)
    return done


def _inline_helpers(tree, known):
    # candidate helpers: new module-level functions, and new functions nested directly in a function body
    cands = {}
    for st in tree.body:
        if isinstance(st, ast.FunctionDef) and st.name not in known:
            cands[st.name] = st
    for n in ast.walk(tree):
        if isinstance(n, FUNC):
            for st in n.body:
                if isinstance(st, ast.FunctionDef) and st.name not in known:
                    cands.setdefault(st.name, st)
    # new methods (`self._helper(..)`): only when the name is new in the whole module and defined by one class
    mcands = {}
    for c in ast.walk(tree):
        if isinstance(c, ast.ClassDef):
            for st in c.body:
                if isinstance(st, ast.FunctionDef) and st.name not in known and not (st.name.startswith('__') and st.name.endswith('__')):
                    mcands.setdefault(st.name, []).append(st)
    if not cands and not mcands:
        return []
    helpers = {}
    for name, fn in cands.items():
        h = analyse_helper(fn)
        if h is not None:
            helpers[name] = h
    for name, fns_ in mcands.items():
        if len(fns_) == 1:
            h = analyse_helper(fns_[0], method=True)
            if h is not None:
                helpers['self.' + name] = h
    if not helpers:
        return []
    inl = Inliner(helpers)
    # helpers calling helpers: flatten the helpers first (bounded)
    for _ in range(3):
        changed = False
        for name, h in list(helpers.items()):
            before = inl.count
            inl.function(h.node)
            if inl.count != before:
                changed = True
                nh = analyse_helper(h.node)
                if nh is None:
                    del helpers[name]
                else:
                    helpers[name] = nh
        if not changed:
            break
    fns = []
    _functions_postorder(tree, fns)
    own = {id(h.node) for h in helpers.values()}
    for fn in fns:
        if id(fn) in own:
            continue
        inl.function(fn)
        # a nested helper whose calls were all inlined is dropped: rules walk the whole host function and would read its body a second time
        for st in list(fn.body):
            if isinstance(st, ast.FunctionDef) and id(st) in own:
                used = any(isinstance(x, ast.Name) and x.id == st.name for o in fn.body if o is not st for x in ast.walk(o))
                if not used and len(fn.body) > 1:
                    fn.body.remove(st)
    ast.fix_missing_locations(tree)
    return sorted(set(inl.inlined))
