# -*- coding: utf-8 -*-
"""
./check <property-id> [--tier quick|thorough] [--repo PATH] [--replay FILE]
"""
import argparse
import importlib
import json
import os
import sys
from .core import Check, AnalysisError, run_guarded

PROPS = ['C01', 'C02', 'C03', 'C04', 'C05', 'C06', 'C07', 'C08', 'C09', 'C10', 'C11', 'C12', 'C13', 'C14', 'C15',
         'C17', 'C18', 'C19', 'C20']


def main():
    ap = argparse.ArgumentParser()
    ap.add_argument('property')
    ap.add_argument('--tier', default=os.environ.get('VERIF_TIER') or 'quick', choices=['quick', 'thorough'])
    ap.add_argument('--repo', default=os.environ.get('VERIF_REPO') or '/repo')
    ap.add_argument('--replay', default=None)
    args = ap.parse_args()
    pid = args.property.upper()

    def run():
        if pid not in PROPS:
            raise AnalysisError(f'no check registered for {pid}')
        mod = importlib.import_module(f'sa.props.{pid.lower()}')
        ck = Check(pid, args.tier, args.repo, level=getattr(mod, 'LEVEL', 'other'))
        if args.replay:
            with open(args.replay) as fh:
                rec = json.load(fh)
            ck.only_key = (rec['rule'], rec['key'])
            print(f'replaying rule instance {ck.only_key} of {pid}')
        from .model import Repo
        repo = Repo(args.repo)
        mod.run(ck, repo)
        return ck.finish()

    run_guarded(run)


if __name__ == '__main__':
    main()
