# -*- coding: utf-8 -*-
"""
./check <property-id> [--tier quick|thorough] [--repo PATH] [--replay FILE]
"""
import argparse
import importlib
import json
import os
import sys
from .core import Check, AnalysisError, run_guarded

PROPS = ['C01', 'C02', 'C03', 'C04', 'C05', 'C06', 'C07', 'C08', 'C09', 'C10', 'C11', 'C12', 'C13', 'C14', 'C15',
         'C17', 'C18', 'C19', 'C20']


def sensitivity(ck, pid, repo_root):
    """
    thorough tier only: after the rules have been evaluated on the tree, replay this property's catalogue of confirmed
    rule-breaking edits (selftest/cat_*.py, incl. the independent seeded changes) and behaviour-preserving twins against
    scratch copies of the CURRENT tree (static analysis of the edited source; nothing is executed), so that each run
    re-establishes that every armed rule still fires on its positive examples and stays silent on the benign ones.
    Edits whose anchor no longer exists in the tree are skipped and counted.  An example that is no longer decided as
    confirmed is reported as SENSITIVITY-NOTE and recorded in the evidence (it says something about the checker, not about
    chython, so it never changes the verdict; ./selftest.sh is the gate for the checker itself).
    """
    import concurrent.futures as cf
    verif = os.path.dirname(os.path.dirname(os.path.abspath(__file__)))
    sys.path.insert(0, os.path.join(verif, 'selftest'))
    import run as st
    entries = []
    for e in st.load_catalogue():
        if pid in e['props']:
            e = dict(e, props=[pid], tier='quick')
            entries.append(e)
    res = {'replayed': 0, 'fired': 0, 'silent_on_benign': 0, 'skipped_anchor_gone': 0}
    lost = []
    with cf.ThreadPoolExecutor(min(16, os.cpu_count() or 4)) as ex:
        for e, (eid, ok, msgs) in zip(entries, ex.map(lambda e: st.run_entry(e, repo_root), entries)):
            if msgs and msgs[0].startswith('SETUP:'):
                res['skipped_anchor_gone'] += 1
                continue
            res['replayed'] += 1
            if ok:
                res['fired' if e['kind'] == 'mutant' else 'silent_on_benign'] += 1
            else:
                lost.append(f'{eid}: ' + ' | '.join(msgs)[:300])
    ck.analysed['sensitivity_replay'] = res
    ck.note(f'sensitivity replay: {res}')
    print(f'sensitivity replay ({pid}): {res}')
    if lost and not ck.findings:
        res['lost'] = lost[:20]
        for ln in lost[:20]:
            print(f'SENSITIVITY-NOTE example no longer decided as confirmed: {ln}')


def main():
    ap = argparse.ArgumentParser()
    ap.add_argument('property')
    ap.add_argument('--tier', default=os.environ.get('VERIF_TIER') or 'quick', choices=['quick', 'thorough'])
    ap.add_argument('--repo', default=os.environ.get('VERIF_REPO') or '/repo')
    ap.add_argument('--replay', default=None)
    args = ap.parse_args()
    pid = args.property.upper()

    def run():
        if pid not in PROPS:
            raise AnalysisError(f'no check registered for {pid}')
        mod = importlib.import_module(f'sa.props.{pid.lower()}')
        ck = Check(pid, args.tier, args.repo, level=getattr(mod, 'LEVEL', 'other'))
        if args.replay:
            with open(args.replay) as fh:
                rec = json.load(fh)
            ck.only_key = (rec['rule'], rec['key'])
            print(f'replaying rule instance {ck.only_key} of {pid}')
        from .model import Repo
        repo = Repo(args.repo)
        mod.run(ck, repo)
        if args.tier == 'thorough' and not args.replay and not os.environ.get('VERIF_NO_SENSITIVITY'):
            sensitivity(ck, pid, args.repo)
        return ck.finish()

    run_guarded(run)


if __name__ == '__main__':
    main()
