# -*- coding: utf-8 -*-
"""
C10: pack codec. The two .pyx files cannot be compiled here (no Cython); the straight-line integer code that defines the
byte layout is extracted textually, cleaned of C casts, parsed with `ast` and interpreted over a *bit-provenance* domain
(each bit of a value is 0, 1 or bit i of a named field). Writer, reader and the published layout are then compared field by
field. Size arithmetic is normalised to a linear form with ceil terms and compared between writer, reader and pack_len.
"""
import ast
import re
from .core import AnalysisError
from .astutil import src, expand_locals, single_defs
from .tables import pyx_source, strip_comments

PACK = 'chython/containers/_pack_v2.pyx'
UNPACK = 'chython/containers/_unpack_v0v2.pyx'
MOL = 'chython.containers.molecule'

# published version-2 layout (docstring of MoleculeContainer.pack): field -> (first bit of the 72-bit atom record, width), MSB first
PUBLISHED_ATOM = {'n': (0, 12), 'ngb': (12, 4), 'stereo': (16, 4), 'isotope': (20, 5), 'atomic_number': (25, 7), 'x': (32, 16), 'y': (48, 16),
                  'hydrogens': (64, 3), 'charge4': (67, 4), 'radical': (71, 1)}
PUBLISHED_HEADER = {'version': (0, 8), 'atoms_count': (8, 12), 'cis_trans_count': (20, 12)}


def clean(expr):
    e = re.sub(r'<[a-z ]+\*?>', '', expr)  # C casts
    e = e.replace('&data', 'data')
    return e.strip()


class Bits:
    """little-endian list of bit sources: 0, 1 or (field, i)"""

    def __init__(self, bits):
        self.bits = list(bits)

    @staticmethod
    def field(name, width):
        return Bits([(name, i) for i in range(width)])

    @staticmethod
    def const(v, width=64):
        return Bits([(v >> i) & 1 for i in range(width)])

    def get(self, i):
        return self.bits[i] if i < len(self.bits) else 0

    def shl(self, k):
        return Bits([0] * k + self.bits)

    def shr(self, k):
        return Bits(self.bits[k:])

    def trunc(self, w):
        return Bits([self.get(i) for i in range(w)])

    def bor(self, o):
        n = max(len(self.bits), len(o.bits))
        out = []
        for i in range(n):
            a, b = self.get(i), o.get(i)
            if a == 0:
                out.append(b)
            elif b == 0:
                out.append(a)
            elif a == b:
                out.append(a)
            else:
                out.append(('CONFLICT', a, b))
        return Bits(out)

    def band(self, o):
        n = max(len(self.bits), len(o.bits))
        out = []
        for i in range(n):
            a, b = self.get(i), o.get(i)
            if a == 0 or b == 0:
                out.append(0)
            elif a == 1:
                out.append(b)
            elif b == 1:
                out.append(a)
            else:
                out.append(('AND', a, b))
        return Bits(out)


def eval_bits(node, env):
    if isinstance(node, ast.Constant) and isinstance(node.value, int):
        return Bits.const(node.value)
    if isinstance(node, ast.Name):
        if node.id not in env:
            raise AnalysisError(f'bit layout: unknown name {node.id}')
        return env[node.id]
    if isinstance(node, ast.BinOp):
        if isinstance(node.op, (ast.LShift, ast.RShift)):
            if not (isinstance(node.right, ast.Constant) and isinstance(node.right.value, int)):
                raise AnalysisError(f'bit layout: non-constant shift {src(node)}')
            v = eval_bits(node.left, env)
            return v.shl(node.right.value) if isinstance(node.op, ast.LShift) else v.shr(node.right.value)
        if isinstance(node.op, ast.BitOr):
            return eval_bits(node.left, env).bor(eval_bits(node.right, env))
        if isinstance(node.op, ast.BitAnd):
            return eval_bits(node.left, env).band(eval_bits(node.right, env))
        if isinstance(node.op, (ast.Add, ast.Sub)) and isinstance(node.right, ast.Constant):
            # (charge + 4) / (x - 4): an affine re-coding of one field: keep the field bits, remember the offset in the name
            v = eval_bits(node.left, env)
            names = {b[0] for b in v.bits if isinstance(b, tuple)}
            if len(names) != 1:
                raise AnalysisError(f'bit layout: arithmetic on a composite value {src(node)}')
            nm = next(iter(names))
            off = node.right.value if isinstance(node.op, ast.Add) else -node.right.value
            return Bits([(f'{nm}{off:+d}', b[1]) if isinstance(b, tuple) else b for b in v.bits])
    if isinstance(node, ast.Subscript):
        key = ' '.join(src(node).split())
        if key in env:
            return env[key]
        raise AnalysisError(f'bit layout: unknown byte {key}')
    raise AnalysisError(f'bit layout: expression form not handled: {src(node)}')


def parse_expr(text):
    try:
        return ast.parse(clean(text), mode='eval').body
    except SyntaxError:
        raise AnalysisError(f'.pyx expression does not normalise to python: {text!r}')


def writer_layout(repo):
    """field bit -> (byte index in the atom record, bit in byte) from the writer; plus header"""
    s = strip_comments(pyx_source(repo.root, PACK))
    consts = [int(x, 16) for x in re.findall(r'\n\s*stereo = (0x[0-9a-fA-F]+)', s)]
    if len(consts) != 4:
        raise AnalysisError(f'writer: expected four stereo byte constants, found {consts}')
    used = 0
    for c in consts:
        used |= c
    stereo_bits = Bits([('stereo8', i) if used >> i & 1 else 0 for i in range(8)])
    env = {'n': Bits.field('n', 12), 'ngb_count': Bits.field('ngb', 4), 'stereo': stereo_bits, 'isotope': Bits.field('isotope', 5),
           'atomic_number': Bits.field('atomic_number', 7), 'atoms_count': Bits.field('atoms_count', 12), 'cis_trans_count': Bits.field('cis_trans_count', 12)}
    # hcr: hydrogens << 5 | (charge + 4) << 1 | radical
    m = re.search(r'hcr = (<unsigned char> py_nan_int << \d+)', s)
    c = re.search(r'hcr \|= (\(charge \+ \d+\) << \d+)', s)
    r = re.search(r'if py_atom\._is_radical:\s*\n\s*hcr \|= (1)\b', s)
    none = re.search(r'hcr = (0x[0-9a-fA-F]+)\s', s)
    if not (m and c and r and none):
        raise AnalysisError('writer: hydrogens/charge/radical byte construction not recognised')
    e2 = dict(env, py_nan_int=Bits.field('hydrogens', 3), charge=Bits.field('charge', 4))
    hcr = eval_bits(parse_expr(m.group(1)), e2).bor(eval_bits(parse_expr(c.group(1)), e2)).bor(Bits([('radical', 0)]))
    env['hcr'] = hcr
    none_code = int(none.group(1), 16) >> 5
    stores = {}
    for mm in re.finditer(r'data\[atoms_shift(?: \+ (\d))?\] = ([^\n]+)', s):
        k = int(mm.group(1) or 0)
        stores[k] = eval_bits(parse_expr(mm.group(2)), env).trunc(8)
    xy = re.findall(r'double_to_float16\(py_atom\.(\w), &data\[atoms_shift \+ (\d)\]\)', s)
    header = {}
    for mm in re.finditer(r'data\[(\d)\] = ([^\n]+)', s):
        header[int(mm.group(1))] = eval_bits(parse_expr(mm.group(2)), env).trunc(8)
    return stores, dict((k, int(v)) for k, v in xy), header, none_code, s


def reader_layout(repo):
    s = strip_comments(pyx_source(repo.root, UNPACK))
    # atom loop body between "for i in range(atoms_count):" and "atoms_shift += 9"
    m = re.search(r'for i in range\(atoms_count\):\n(.*?)atoms_shift \+= 9', s, re.S)
    if not m:
        raise AnalysisError('reader: atom loop not recognised')
    body = m.group(1)
    env = {}
    for k in range(9):
        env[f'data[atoms_shift + {k}]' if k else 'data[atoms_shift]'] = Bits([(f'byte{k}', i) for i in range(8)])
    fields = {}
    for line in body.split('\n'):
        line = line.strip()
        mt = re.fullmatch(r'a, b = (data\[[^\]]+\]), (data\[[^\]]+\])', line)
        if mt:
            env['a'] = env[' '.join(mt.group(1).split())]
            env['b'] = env[' '.join(mt.group(2).split())]
            continue
        ma = re.fullmatch(r'a = (data\[[^\]]+\])', line)
        if ma:
            env['a'] = env[' '.join(ma.group(1).split())]
            continue
        for pat, name in ((r'mapping\[i\] = n = (.+)', 'n'), (r'neighbors\[i\] = neighbors_count = (.+)', 'ngb'), (r'stereo = (.+)', 'stereo'),
                          (r'atomic_number = (.+)', 'atomic_number'), (r'isotope = (.+)', 'isotope'), (r'hydrogens = (.+)', 'hydrogens'),
                          (r'py_atom\._charge = (.+)', 'charge')):
            mm = re.fullmatch(pat, line)
            if mm:
                fields[name] = eval_bits(parse_expr(mm.group(1)), env)
        if line.startswith('if a & 0x01'):
            fields['radical'] = eval_bits(parse_expr('a & 0x01'), env)
    xy = re.findall(r'a, b = data\[atoms_shift \+ (\d)\], data\[atoms_shift \+ (\d)\]\s*\n\s*py_vector\.(\w) = double_from_bytes\(a, b\)', body)
    # header
    hm = re.search(r'version = data\[0\]\s*\n\s*a, b, c = data\[1\], data\[2\], data\[3\]\s*\n\s*atoms_count = (.+)\n\s*cis_trans_count = (.+)\n', s)
    if not hm:
        raise AnalysisError('reader: header decoding not recognised')
    henv = {'a': Bits([('byte1', i) for i in range(8)]), 'b': Bits([('byte2', i) for i in range(8)]), 'c': Bits([('byte3', i) for i in range(8)])}
    header = {'atoms_count': eval_bits(parse_expr(hm.group(1)), henv), 'cis_trans_count': eval_bits(parse_expr(hm.group(2)), henv)}
    none_code = re.search(r'if hydrogens == (\d+):\s*\n\s*py_atom\._implicit_hydrogens = None', body)
    return fields, {v: (int(a), int(b)) for a, b, v in xy}, header, int(none_code.group(1)) if none_code else None, s


def published_pos(layout, field, i, width):
    """(byte, bit-in-byte) of bit i (LSB = 0) of a field in a MSB-first published layout"""
    start, w = layout[field]
    msb_index = start + (w - 1 - i)  # bit number counted from the record's first bit
    return msb_index // 8, 7 - msb_index % 8


def rule_layout(ck, repo, R):
    ck.rule(R, 'bit-provenance interpretation of the writer (data[atoms_shift + k] = ...) and of the reader (field = f(data[...])): every bit of every '
               'field of the 9-byte atom record and of the 4-byte header sits where the published version-2 layout puts it, in the writer and in the reader')
    stores, wxy, wheader, wnone, _ = writer_layout(repo)
    fields, rxy, rheader, rnone, _ = reader_layout(repo)
    ck.require(set(stores) == {0, 1, 2, 3, 8}, f'writer stores atom-record bytes {sorted(stores)}; expected 0,1,2,3,8 plus two float16 calls')
    # writer: where does each field bit go
    wpos = {}
    for k, byte in stores.items():
        for bit in range(8):
            b = byte.get(bit)
            if isinstance(b, tuple) and b[0] == 'CONFLICT':
                ck.bad(R, f'writer:overlap:byte{k}.{bit}', f'writer ORs two different fields into bit {bit} of atom-record byte {k}: {b[1:]}', file=PACK)
            elif isinstance(b, tuple):
                wpos[(b[0], b[1])] = (k, bit)
    ren = {'stereo8': 'stereo', 'charge+4': 'charge4'}
    for f, (start, width) in PUBLISHED_ATOM.items():
        if f in ('x', 'y'):
            continue
        for i in range(width):
            want = published_pos(PUBLISHED_ATOM, f, i, width)
            wf = {v: k for k, v in ren.items()}.get(f, f)
            wi = i + 4 if f == 'stereo' else i  # writer keeps stereo as a full byte constant (0xc0...), i.e. already in the high nibble
            got = wpos.get((wf, wi))
            ck.decide(got == want, R, f'writer:{f}[{i}]', got, f'writer puts bit {i} of {f} at byte {got[0] if got else None} bit {got[1] if got else None}; the published layout says byte {want[0]} bit {want[1]}',
                      file=PACK)
    # reader
    for f, val in fields.items():
        pf = 'charge4' if f == 'charge' else f
        width = PUBLISHED_ATOM[pf][1]
        for i in range(max(width, len([b for b in val.bits if b != 0]))):
            b = val.get(i)
            if i >= width:
                ck.decide(b == 0, R, f'reader:{f}[{i}]:extra', None, f'reader takes an extra bit {i} for {f} (field is {width} bits wide): {b}', file=UNPACK)
                continue
            want = published_pos(PUBLISHED_ATOM, pf, i, width)
            got = None
            if isinstance(b, tuple) and isinstance(b[0], str) and b[0].startswith('byte'):
                name = b[0].split('-')[0].split('+')[0]
                got = (int(name[4:]), b[1])
            ck.decide(got == want, R, f'reader:{f}[{i}]', got, f'reader takes bit {i} of {f} from {b}; the published layout says byte {want[0]} bit {want[1]}', file=UNPACK)
    cb = fields.get('charge')
    offs = {b[0].split('byte')[1][1:] for b in cb.bits if isinstance(b, tuple)} if cb else set()
    ck.decide(offs == {'-4'}, R, 'reader:charge-offset', sorted(offs), f'reader decodes the charge nibble with offset {sorted(offs)}; the writer stores charge + 4', file=UNPACK)
    ck.decide(wnone == rnone == 7, R, 'hydrogens:none-code', (wnone, rnone), f'"unknown hydrogens" is written as {wnone} and read as {rnone}; published code is 7', file=PACK)
    ck.decide(wxy == {'x': 4, 'y': 6} and rxy == {'x': (4, 5), 'y': (6, 7)}, R, 'xy:bytes', (wxy, rxy), f'coordinates are written at {wxy} and read from {rxy}; published: x bytes 4-5, y bytes 6-7', file=PACK)
    # header
    hpos = {}
    for k, byte in wheader.items():
        for bit in range(8):
            b = byte.get(bit)
            if isinstance(b, tuple) and b[0] == 'CONFLICT':
                ck.bad(R, f'writer:header-overlap:byte{k}.{bit}', f'writer ORs two fields into header byte {k} bit {bit}', file=PACK)
            elif isinstance(b, tuple):
                hpos[(b[0], b[1])] = (k, bit)
    for f in ('atoms_count', 'cis_trans_count'):
        for i in range(12):
            want = published_pos(PUBLISHED_HEADER, f, i, 12)
            ck.decide(hpos.get((f, i)) == want, R, f'writer:header:{f}[{i}]', hpos.get((f, i)), f'writer puts bit {i} of {f} at {hpos.get((f, i))}; published {want}', file=PACK)
            b = rheader[f].get(i)
            got = (int(b[0][4:]), b[1]) if isinstance(b, tuple) and str(b[0]).startswith('byte') else None
            ck.decide(got == want, R, f'reader:header:{f}[{i}]', got, f'reader takes bit {i} of {f} from {b}; published {want}', file=UNPACK)
    ck.decide(wheader.get(0) is not None and [wheader[0].get(i) for i in range(8)] == [(2 >> i) & 1 for i in range(8)], R, 'writer:version-byte', None, 'writer no longer stores version 2 in byte 0', file=PACK)
    ck.floor(R, 125)


# -- size arithmetic ------------------------------------------------------------------------------------------------------
class Lin:
    """linear form over symbols with ceil(k*sym/d) terms: {term: coef}"""

    def __init__(self, d=None):
        self.d = dict(d or {})

    def __add__(self, o):
        r = dict(self.d)
        for k, v in o.d.items():
            r[k] = r.get(k, 0) + v
        return Lin({k: v for k, v in r.items() if v})

    def scale(self, c):
        return Lin({k: v * c for k, v in self.d.items()})

    def __eq__(self, o):
        return self.d == o.d

    def __repr__(self):
        return ' + '.join(f'{v}*{k}' for k, v in sorted(self.d.items(), key=str)) or '0'


def lin(node, env):
    if isinstance(node, ast.Constant):
        return Lin({'1': node.value})
    if isinstance(node, ast.Name):
        if node.id in env:
            return env[node.id]
        raise AnalysisError(f'size arithmetic: unknown name {node.id}')
    if isinstance(node, ast.BinOp):
        if isinstance(node.op, ast.Add):
            return lin(node.left, env) + lin(node.right, env)
        if isinstance(node.op, ast.Mult):
            l, r = node.left, node.right
            if isinstance(l, ast.Constant):
                return lin(r, env).scale(l.value)
            if isinstance(r, ast.Constant):
                return lin(l, env).scale(r.value)
    if isinstance(node, ast.Call) and src(node.func) == 'ceil' and isinstance(node.args[0], ast.BinOp) and isinstance(node.args[0].op, ast.Div):
        num = lin(node.args[0].left, env)
        den = node.args[0].right
        if isinstance(den, ast.Constant) and len(num.d) == 1:
            (sym, k), = num.d.items()
            return Lin({f'ceil({k}*{sym}/{den.value})': 1})
    if isinstance(node, ast.BinOp) and isinstance(node.op, ast.BitAnd):
        return lin(node.left, env)  # acs & 0x0fff: handled by caller through env
    if isinstance(node, ast.BinOp) and isinstance(node.op, ast.FloorDiv) and isinstance(node.right, ast.Constant):
        num = lin(node.left, env)
        if len(num.d) == 1:
            (sym, k), = num.d.items()
            return Lin({f'floor({k}*{sym}/{node.right.value})': 1})  # a floor term never equals a ceil term: compared symbolically
    if isinstance(node, ast.BinOp) and isinstance(node.op, ast.Sub):
        return lin(node.left, env) + lin(node.right, env).scale(-1)
    raise AnalysisError(f'size arithmetic: form not handled: {src(node)}')


def ceil_block(text, var, src_sym):
    """recognise `var = S*k; if var % d: var = var / d + 1 else: var /= d`  -> ceil(k*S/d)"""
    m = re.search(rf'{var} = {src_sym} \* (\d+)\s*\n\s*if {var} % (\d+):[^\n]*\n\s*{var} = {var} / \2 \+ 1\s*\n\s*else:\s*\n\s*{var} /= \2', text)
    if m:
        return Lin({f'ceil({m.group(1)}*b/{m.group(2)})': 1})
    # the closed form: var = S*k + (d-1); var /= d   (C integer division)
    m = re.search(rf'{var} = {src_sym} ?\* ?(\d+) \+ (\d+)\s*\n\s*{var} /= (\d+)', text) or re.search(rf'{var} = \({src_sym} ?\* ?(\d+) \+ (\d+)\) / (\d+)', text)
    if m and int(m.group(2)) == int(m.group(3)) - 1:
        return Lin({f'ceil({m.group(1)}*b/{m.group(3)})': 1})
    return None


def rule_sizes(ck, repo, R):
    ck.rule(R, 'section sizes agree: writer (4 + 9 atoms + 3 bonds + ceil(3 bonds / 8) + 4 cis-trans), reader of version 2, reader of version 0 '
               '(2 ceil(bonds / 5) for the order block) and the pure-python ReactionContainer.pack_len use the same formula per version')
    A, B, C = Lin({'a': 1}), Lin({'b': 1}), Lin({'c': 1})
    w = strip_comments(pyx_source(repo.root, PACK))
    cw = ceil_block(w, 'size', 'bonds_count')
    ck.require(cw is not None, 'writer: ceil(3*bonds/8) block not recognised')
    env = {'atoms_count': A, 'bonds_count': B, 'cis_trans_count': C, 'size': cw}
    for name in ('bonds_shift', 'order_shift', 'cis_trans_shift', 'size'):
        m = re.search(rf'\n\s*{name} = ([^\n#]+)', w[w.index('bonds_shift = 4'):] if name != 'bonds_shift' else w)
        ck.require(m is not None, f'writer: {name} assignment not found')
        env[name] = lin(ast.parse(m.group(1).strip(), mode='eval').body, env)
    writer_total = env['size']
    want_v2 = Lin({'1': 4, 'a': 9, 'b': 3, 'ceil(3*b/8)': 1, 'c': 4})
    ck.decide(writer_total == want_v2, R, 'writer:total', repr(writer_total), f'writer allocates {writer_total}; published layout gives {want_v2}', file=PACK)
    r = strip_comments(pyx_source(repo.root, UNPACK))
    cr = ceil_block(r, 'order_count', 'bonds_count')
    ck.decide(cr == Lin({'ceil(3*b/8)': 1}), R, 'reader:v2-order-block', repr(cr), f'reader computes the version-2 order block as {cr}', file=UNPACK)
    v0 = re.search(r'order_count = bonds_count / 5\s*\n\s*if bonds_count % 5:\s*\n\s*order_count \+= 1\s*\n\s*order_count \*= 2', r)
    ck.decide(v0 is not None, R, 'reader:v0-order-block', None, 'reader no longer computes the version-0 order block as 2*ceil(bonds/5)', file=UNPACK)
    renv = {'atoms_shift': Lin({'1': 4, 'a': 9}), 'bonds_count': B, 'cis_trans_count': C, 'order_count': Lin({'ceil(3*b/8)': 1})}
    for name in ('bonds_shift', 'order_shift', 'cis_trans_shift', 'size'):
        m = re.search(rf'\n\s*{name} = ([^\n#]+)', r[r.index('bonds_shift = atoms_shift'):] if name != 'bonds_shift' else r[r.index('bonds_shift = atoms_shift') - 5:])
        ck.require(m is not None, f'reader: {name} assignment not found')
        renv[name] = lin(ast.parse(m.group(1).strip(), mode='eval').body, renv)
    ck.decide(renv['size'] == want_v2, R, 'reader:total', repr(renv['size']), f'reader computes the pack length as {renv["size"]}; writer allocates {want_v2}', file=UNPACK)
    # pack_len
    f = repo.func('chython.containers.reaction:ReactionContainer.pack_len')
    incs = {}
    for n in ast.walk(f.node):
        if isinstance(n, ast.If):
            t = src(n.test)
            for st in n.body:
                if isinstance(st, ast.AugAssign) and src(st.target) == 'shift' and t in ('v == 2', 'v == 0'):
                    incs[t] = expand_locals(st.value, f.node, only=set(single_defs(f.node)) - {'acs', 'ac', 'neighbors', 'shift', 'v', 'data'})  # named sub-expressions (`ct_size = (acs & 0x0fff) * 4`) are folded back
    ck.require(set(incs) == {'v == 2', 'v == 0'}, 'pack_len: per-version shift increments not found')
    penv = {'neighbors': B}

    def plin(node):
        if isinstance(node, ast.BinOp) and isinstance(node.op, ast.Add):
            return plin(node.left) + plin(node.right)
        if isinstance(node, ast.BinOp) and isinstance(node.op, ast.Mult):
            if src(node.left) == '(acs & 4095)' or src(node.left) == 'acs & 4095':
                return C.scale(node.right.value)
            if isinstance(node.left, ast.Call) and src(node.left.func) == 'ceil':
                return lin(node.left, penv).scale(node.right.value)
            if isinstance(node.right, ast.Constant) and not isinstance(node.left, ast.Constant):
                return plin(node.left).scale(node.right.value)
        return lin(node, penv)
    v2 = plin(incs['v == 2'])
    v0 = plin(incs['v == 0'])
    ck.decide(v2 == Lin({'b': 3, 'ceil(3*b/8)': 1, 'c': 4}), R, 'pack_len:v2', repr(v2), f'pack_len skips {v2} after the atom block of a version-2 molecule; the writer emits 3*b + ceil(3*b/8) + 4*c', file=f.file, line=f.lineno)
    ck.decide(v0 == Lin({'b': 3, 'ceil(1*b/5)': 2, 'c': 4}), R, 'pack_len:v0', repr(v0), f'pack_len skips {v0} for version 0; the reader uses 3*b + 2*ceil(b/5) + 4*c', file=f.file, line=f.lineno)
    s = src(f.node)
    walk_form = "shift += 9" in s and "neighbors += data[shift] & 15" in s and 'neighbors //= 2' in s
    # closed form of the same walk: neighbours = (sum of the low nibbles at stride 9) // 2, then skip 9 * ac bytes
    sum_form = any(x in s for x in ("neighbors = sum((data[shift + 9 * i] & 15 for i in range(ac))) // 2", "neighbors = sum((data[shift + i * 9] & 15 for i in range(ac))) // 2",
                                    "neighbors = sum((data[i] & 15 for i in range(shift, shift + 9 * ac, 9))) // 2")) and ("shift += 9 * ac" in s or "shift += ac * 9" in s)
    ck.decide("ac = acs >> 12" in s and "shift += 4" in s and (walk_form or sum_form), R, 'pack_len:atom-block', None,
              'pack_len no longer walks 9-byte atom records reading the neighbour nibble', file=f.file, line=f.lineno)
    ml = repo.func(f'{MOL}:MoleculeContainer.pack_len')
    ck.decide("int.from_bytes(data[1:3], 'big') >> 4" in src(ml.node), R, 'molecule.pack_len', None, 'MoleculeContainer.pack_len no longer reads the 12-bit atom count', file=ml.file, line=ml.lineno)


def rule_limits(ck, repo, R):
    ck.rule(R, 'the format limits the docstring names are enforced by MoleculeContainer.pack(check=True): non-empty, atom numbers <= 4095, at most 15 neighbours; '
               'reaction role counts are written as single bytes in the order reactants, reagents, products')
    f = repo.func(f'{MOL}:MoleculeContainer.pack')
    checks = {}
    for n in ast.walk(f.node):
        if isinstance(n, ast.If) and any(isinstance(x, ast.Raise) for x in n.body):
            checks[src(n.test)] = n
    ck.decide('not bonds' in checks, R, 'limit:non-empty', None, 'pack no longer rejects empty molecules', file=f.file, line=f.lineno)
    ck.decide('max(bonds) > 4095' in checks, R, 'limit:atom-number', sorted(checks), 'pack no longer rejects atom numbers above 4095 (12-bit field)', file=f.file, line=f.lineno)
    ck.decide('any((len(x) > 15 for x in bonds.values()))' in checks, R, 'limit:neighbours', sorted(checks), 'pack no longer rejects more than 15 neighbours (4-bit field)', file=f.file, line=f.lineno)
    from .astutil import reach_conditions as _rc, enclosing_map as _em
    _pm = _em(f.node)
    limit_ifs = [v for k, v in checks.items() if 'bonds' in k]
    ck.decide(bool(limit_ifs) and all(any(isinstance(c, ast.Name) and c.id == 'check' for c in _rc(v, f.node, _pm)) for v in limit_ifs), R, 'limit:under-check-flag', None,
              'limit tests are no longer reached only when `check` is set', file=f.file, line=f.lineno)
    rp = repo.func('chython.containers.reaction:ReactionContainer.pack')
    ck.decide('bytearray((1, len(self.reactants), len(self.reagents), len(self.products)))' in src(rp.node) and 'for m in self.molecules()' in src(rp.node), R, 'reaction:header', None,
              'reaction pack header is no longer (1, reactants, reagents, products) followed by molecules() order', file=rp.file, line=rp.lineno)
    ru = repo.func('chython.containers.reaction:ReactionContainer.unpack')
    ck.decide('reactants, reagents, products = (data[1], data[2], data[3])' in src(ru.node), R, 'reaction:header-read', None, 'reaction unpack no longer reads the three counts in writer order', file=ru.file, line=ru.lineno)
    up = repo.func('chython.containers:unpach') if False else None


def rule_stereo_codes(ck, repo, R):
    ck.rule(R, 'atom stereo nibble code book: writer (sign, allene?) -> 0x80/0xc0 tetrahedron, 0x20/0x30 allene, 0 none; reader maps the same nibbles back to the same sign')
    w = strip_comments(pyx_source(repo.root, PACK))
    m = re.search(r'elif py_nan_int:\s*\n\s*if ngb_count == 2:[^\n]*\n\s*stereo = (0x\w+)\s*\n\s*else:\s*\n\s*stereo = (0x\w+)\s*\n\s*else:\s*\n\s*if ngb_count == 2:[^\n]*\n\s*stereo = (0x\w+)\s*\n\s*else:\s*\n\s*stereo = (0x\w+)', w)
    ck.require(m is not None, 'writer: stereo code ladder not recognised')
    wt = {(True, True): int(m.group(1), 16) >> 4, (True, False): int(m.group(2), 16) >> 4, (False, True): int(m.group(3), 16) >> 4, (False, False): int(m.group(4), 16) >> 4}
    r = strip_comments(pyx_source(repo.root, UNPACK))
    rd = {}
    for mm in re.finditer(r'(?:if|elif) (stereo == (?:0b[01]+|\d+)(?: or stereo == (?:0b[01]+|\d+))*):[^\n]*\n\s*py_nan_bool = (None|True|False)', r):
        for k in re.findall(r'stereo == (0b[01]+|\d+)', mm.group(1)):  # arms may be merged with `or`
            rd[int(k, 0)] = {'None': None, 'True': True, 'False': False}[mm.group(2)]
    els = re.search(r'else:[^\n]*\n\s*py_nan_bool = (True|False)', r)
    ck.require(len(rd) >= 3 and els is not None, 'reader: stereo nibble ladder not recognised')
    for (sign, allene), code in sorted(wt.items()):
        got = rd.get(code, els.group(1) == 'True')
        ck.decide(got is sign, R, f'sign={sign},allene={allene}', code, f'writer codes (sign={sign}, allene={allene}) as nibble {code:#x}; reader decodes it as {got}', file=PACK)
    ck.decide(rd.get(0, 'x') is None, R, 'no-stereo', None, 'nibble 0 is no longer decoded as "no stereo"', file=UNPACK)
    ck.decide(len(set(wt.values())) == 4 and 0 not in wt.values(), R, 'codes-distinct', sorted(wt.values()), f'stereo codes are not four distinct non-zero nibbles: {wt}', file=PACK)
    # bond order code: writer order - 1, reader + 1 ; cis/trans sign byte
    ck.decide('py_bond._order - 1' in w and 'py_bond._order = orders[k] + 1' in r, R, 'bond-order-code', None, 'bond orders are no longer stored as order - 1 / read as code + 1', file=PACK)
    ck.decide('data[cis_trans_shift + 3] = py_nan_int' in w and re.search(r'if d:\s*\n\s*py_cis_trans.append\(\(py_n, py_m, True\)\)', r) is not None, R, 'cis-trans-sign', None,
              'cis/trans sign byte is no longer written as the bool and read as non-zero = True', file=PACK)


def rule_cis_trans_keys(ck, repo, R):
    """the cis/trans block stores the TERMINAL pair of the cumulene; the reader resolves it back to the central bond through the inverse table"""
    ck.rule(R, 'writer: the two atom numbers of a cis/trans record are molecule._stereo_cis_trans_terminals[<bond atom>] (terminal pair of the cumulene chain); '
               'reader: MoleculeContainer.unpack resolves the first number through _stereo_cis_trans_centers (terminal -> central bond) before setting the '
               'label, and skips records whose terminal is unknown; the three tables are built from the same chains with the same parity filter. '
               'Indexing _bonds with the stored pair directly is right only for plain double bonds')
    text = strip_comments(pyx_source(repo.root, PACK))
    m1 = re.search(r'(\w+)\s*=\s*molecule\.(_stereo_cis_trans_\w+)', text)
    ck.require(m1 is not None, 'writer: cis/trans table binding not found in _pack_v2.pyx')
    var, table = m1.group(1), m1.group(2)
    ck.decide(table == '_stereo_cis_trans_terminals', R, 'writer:table', table, f'the writer draws cis/trans atom pairs from `{table}`, the format stores terminal pairs (_stereo_cis_trans_terminals)',
              file=PACK)
    m2 = re.search(r'(\w+)\s*=\s*' + re.escape(var) + r'\[(\w+)\]\s*\n\s*(\w+)\s*,\s*(\w+)\s*=\s*\1', text)
    ck.require(m2 is not None, 'writer: `py_tuple = py_stereo[atom]; tn, tm = py_tuple` not found')
    tn, tm = m2.group(3), m2.group(4)
    blk = re.findall(r'data\[cis_trans_shift(?: \+ \d)?\]\s*=\s*([^\n]+)', text)
    ck.decide(len(blk) == 4 and tn in blk[0] and tn in blk[1] and tm in blk[1] and tm in blk[2], R, 'writer:record', blk,
              f'the 4 record bytes {blk} are not composed from the terminal pair ({tn}, {tm})', file=PACK)
    f = repo.func(f'{MOL}:MoleculeContainer.unpack')
    ck.require(f is not None, 'MoleculeContainer.unpack not found')
    loops = [n for n in ast.walk(f.node) if isinstance(n, ast.For) and isinstance(n.iter, ast.Name) and n.iter.id == 'cis_trans']
    ck.require(len(loops) == 1 and isinstance(loops[0].target, ast.Tuple) and len(loops[0].target.elts) == 3, 'unpack: loop over the decoded cis/trans records not found')
    lp = loops[0]
    a, b, s = [src(e) for e in lp.target.elts]
    stores = [n for n in ast.walk(lp) if isinstance(n, ast.Assign) and isinstance(n.targets[0], ast.Attribute) and n.targets[0].attr == '_stereo']
    ck.require(len(stores) == 1, 'unpack: expected one `_stereo` store in the cis/trans loop')
    st = stores[0]
    # resolve local names used in the target (bond = mol.bond(*centers[n]))
    local = {}
    for n in ast.walk(f.node):
        if isinstance(n, ast.Assign) and len(n.targets) == 1 and isinstance(n.targets[0], ast.Name):
            local.setdefault(n.targets[0].id, []).append(n.value)
    exprs, todo, seen = [], [st.targets[0].value], set()
    while todo:
        e = todo.pop()
        exprs.append(e)
        for n in ast.walk(e):
            if isinstance(n, ast.Name) and n.id not in seen:
                seen.add(n.id)
                todo.extend(local.get(n.id, ()))
    via = [n for e in exprs for n in ast.walk(e) if isinstance(n, ast.Subscript) and isinstance(n.value, ast.Attribute) and n.value.attr == '_stereo_cis_trans_centers'
           and src(n.slice) in (a, b)]
    via_alias = [n for e in exprs for n in ast.walk(e) if isinstance(n, ast.Subscript) and isinstance(n.value, ast.Name) and
                 any(isinstance(v, ast.Attribute) and v.attr == '_stereo_cis_trans_centers' for v in local.get(n.value.id, ())) and src(n.slice) in (a, b)]
    ck.decide(bool(via or via_alias), R, 'reader:resolves-terminal', src(st.targets[0]),
              f'unpack sets `{src(st.targets[0])}` without resolving the stored terminal `{a}` through _stereo_cis_trans_centers: for cumulenes with 3, 5, .. '
              f'double bonds the stored pair is not a bond and the label is lost or misplaced', file=f.file, line=st.lineno, func='MoleculeContainer.unpack', construct=src(st))
    ck.decide(src(st.value) == s, R, 'reader:sign', src(st.value), f'the label stored is `{src(st.value)}` instead of the decoded sign `{s}`', file=f.file, line=st.lineno)
    # the tables agree on chains, parity filter and terminals
    ms = repo.cls('chython.algorithms.stereo:MoleculeStereo')
    shapes = {}
    for name in ('_stereo_cis_trans_centers', '_stereo_cis_trans_terminals', '_stereo_cis_trans_counterpart'):
        g = ms.method(name)
        ck.require(g is not None, f'{name} not found')
        loops_ = [n for n in ast.walk(g.node) if isinstance(n, ast.For)]
        ck.require(len(loops_) == 1, f'{name}: expected one loop')
        l = loops_[0]
        filt = [src(n.test) for n in l.body if isinstance(n, ast.If) and any(isinstance(x, ast.Continue) for x in n.body)]
        ends = [src(n) for n in l.body if isinstance(n, ast.Assign) and isinstance(n.targets[0], ast.Tuple) and 'path[0]' in src(n.value)]
        shapes[name] = (src(l.iter), tuple(filt), tuple(ends))
    ck.decide(len(set(shapes.values())) == 1, R, 'tables:same-chains', list(shapes.values())[0],
              f'the cis/trans tables no longer iterate the same chains with the same filter and terminals: {shapes}', file='chython/algorithms/stereo.py')
    ck.floor(R, 5)


def _accepted_headers(fn):
    """header bytes MoleculeContainer.unpack lets through: the `if` over data[0] one of whose sides only raises, decided by evaluating its test
    for every byte value (any spelling: `in (0, 2)`, `== 0 or == 2`, `!= 0 and != 2` with the raise first, a local alias of data[0])"""
    from .r_query import _ev, _Unknown
    from .astutil import expand_locals

    class Rep(ast.NodeTransformer):
        def visit_Subscript(self, node):
            if src(node) == 'data[0]':
                return ast.Name(id='V__', ctx=ast.Load())
            return self.generic_visit(node)

    def raises(block):
        return bool(block) and isinstance(block[-1], ast.Raise)
    for st in ast.walk(fn):
        if not isinstance(st, ast.If):
            continue
        test = expand_locals(st.test, fn)
        if 'data[0]' not in src(test):
            continue
        test = Rep().visit(test)
        try:
            truth = {v: bool(_ev(test, {'V__': v})) for v in range(256)}
        except _Unknown:
            continue
        if raises(st.body) and not raises(st.orelse):
            return {v for v, t in truth.items() if not t}
        if raises(st.orelse) and not raises(st.body):
            return {v for v, t in truth.items() if t}
    return None


def rule_unpach_dispatch(ck, repo, R):
    ck.rule(R, 'the generic unpach() hands every header MoleculeContainer.unpack accepts (version 0 and version 2) to the molecule decoder: either by trying '
               'the molecule decoder first and falling back on ValueError, or by a header test naming exactly those versions')
    m = repo.module('chython.containers')
    f = m.functions.get('unpach') if m else None
    ck.require(f is not None, 'chython.containers.unpach not found')
    mu = repo.func(f'{MOL}:MoleculeContainer.unpack')
    accepted = _accepted_headers(mu.node)
    ck.require(accepted, 'MoleculeContainer.unpack: accepted header versions not found')
    tries = [n for n in ast.walk(f.node) if isinstance(n, ast.Try)]
    if tries:
        t = tries[0]
        first = any(isinstance(c, ast.Call) and src(c.func) == 'MoleculeContainer.unpack' for s in t.body for c in ast.walk(s))
        catches = any(h.type is None or src(h.type) in ('ValueError', 'Exception') or 'ValueError' in src(h.type) for h in t.handlers)
        ck.decide(first and catches, R, 'molecule-first-then-fallback', sorted(accepted), 'unpach no longer tries the molecule decoder first with a ValueError fallback', file=f.file, line=t.lineno)
    else:
        routed = None
        for n in ast.walk(f.node):
            if isinstance(n, ast.If) and any(isinstance(c, ast.Call) and src(c.func) == 'MoleculeContainer.unpack' for s in n.body for c in ast.walk(s)):
                t = n.test
                if isinstance(t, ast.Compare) and src(t.left) == 'data[0]':
                    if isinstance(t.ops[0], ast.Eq) and isinstance(t.comparators[0], ast.Constant):
                        routed = {t.comparators[0].value}
                    elif isinstance(t.ops[0], ast.In):
                        try:
                            routed = set(ast.literal_eval(t.comparators[0]))
                        except Exception:
                            pass
        if routed is None:
            raise AnalysisError('unpach: dispatch form not recognised')
        ck.decide(accepted <= routed, R, 'header-dispatch', sorted(routed),
                  f'unpach routes headers {sorted(routed)} to the molecule decoder, which accepts {sorted(accepted)}: packs with header {sorted(accepted - routed)} '
                  f'(published earlier) are sent to the reaction decoder and rejected', file=f.file, line=f.lineno, func='unpach')
    ck.floor(R, 1)


def rule_half_float_decoder(ck, repo, R):
    """C10: coordinates are IEEE binary16. The decoder splits the two bytes into sign / 5-bit exponent field / 10-bit fraction; a non-zero exponent field means an implicit
    leading 1 and bias 15, the field 0 means NO leading 1 and the fixed exponent -14 (sub-normals; the writer encodes them that way). Decided by following both paths of
    the exponent test symbolically (the scale handed to ldexp as an affine form of the exponent field)"""
    ck.rule(R, 'double_from_bytes: on the path where the exponent field is non-zero the fraction gets the implicit leading bit and ldexp is called with (field - 15); on the '
               'path where it is zero there is no leading bit and ldexp is called with -14; bit extraction (sign = a >> 7, exponent = (a >> 2) & 31, fraction = ((a & 3) << 8) | b, '
               'fraction / 1024) as published')
    text = strip_comments(pyx_source(repo.root, UNPACK))
    m = re.search(r'cdef double double_from_bytes\(unsigned char a, unsigned char b\):\n((?:    .*\n|\n)+)', text)
    ck.require(m is not None, '_unpack_v0v2.pyx: double_from_bytes not found')
    body = '\n'.join(l[4:] for l in m.group(1).splitlines() if not l.strip().startswith('cdef '))
    try:
        tree = ast.parse(body)
    except SyntaxError as e:
        raise AnalysisError(f'double_from_bytes: body is not plain statements ({e})')
    flat = ' '.join(src(tree).split())
    ck.decide('sign = a >> 7' in flat and 'e = a >> 2 & 31' in flat and 'f = (a & 3) << 8 | b' in flat and ('x = f / 1024.0' in flat or 'x = f / 1024' in flat), R, 'bit-extraction', None,
              'double_from_bytes no longer extracts sign / exponent / fraction as the binary16 layout defines', file=UNPACK)

    def aff(e, env):
        if isinstance(e, ast.Constant) and isinstance(e.value, (int, float)):
            return (0, e.value)
        if isinstance(e, ast.Name):
            if e.id in env:
                return env[e.id]
            raise AnalysisError(f'double_from_bytes: `{e.id}` in the scale is not understood')
        if isinstance(e, ast.UnaryOp) and isinstance(e.op, ast.USub):
            a_ = aff(e.operand, env)
            return (-a_[0], -a_[1])
        if isinstance(e, ast.BinOp) and isinstance(e.op, (ast.Add, ast.Sub)):
            l, r = aff(e.left, env), aff(e.right, env)
            sgn = 1 if isinstance(e.op, ast.Add) else -1
            return (l[0] + sgn * r[0], l[1] + sgn * r[1])
        raise AnalysisError(f'double_from_bytes: scale expression `{src(e)}` not understood')
    results = []

    def run(stmts, env, lead, nonzero):
        for i, st in enumerate(stmts):
            if isinstance(st, ast.If) and src(st.test) in ('e', 'e != 0', 'e > 0'):
                run(list(st.body) + stmts[i + 1:], dict(env), lead, True)
                run(list(st.orelse) + stmts[i + 1:], dict(env), lead, False)
                return
            if isinstance(st, ast.If) and src(st.test) in ('not e', 'e == 0'):
                run(list(st.body) + stmts[i + 1:], dict(env), lead, False)
                run(list(st.orelse) + stmts[i + 1:], dict(env), lead, True)
                return
            if isinstance(st, ast.AugAssign) and src(st.target) == 'x' and isinstance(st.op, ast.Add) and isinstance(st.value, ast.Constant) and st.value.value == 1:
                lead = True
            elif isinstance(st, ast.AugAssign) and src(st.target) == 'e' and isinstance(st.op, (ast.Add, ast.Sub)):
                d = aff(st.value, env)
                sgn = 1 if isinstance(st.op, ast.Add) else -1
                env['e'] = (env['e'][0] + sgn * d[0], env['e'][1] + sgn * d[1])
            elif isinstance(st, ast.Assign) and src(st.targets[0]) == 'e' and nonzero is not None:
                env['e'] = aff(st.value, env)
            elif isinstance(st, ast.Assign) and src(st.targets[0]) == 'x' and isinstance(st.value, ast.Call) and src(st.value.func) == 'ldexp':
                results.append((nonzero, lead, aff(st.value.args[1], env)))
                return
    start = [i for i, st in enumerate(tree.body) if isinstance(st, ast.Assign) and src(st.targets[0]) == 'x']
    ck.require(start, 'double_from_bytes: fraction assignment not found')
    run(tree.body[start[0] + 1:], {'e': (1, 0)}, False, None)
    got = {nz: (lead, sc) for nz, lead, sc in results}
    ok = got.get(True) == (True, (1, -15)) and (got.get(False) == (False, (0, -14)) or got.get(False) == (False, (1, -14)))
    ck.decide(ok, R, 'exponent-paths', {str(k): v for k, v in got.items()},
              f'double_from_bytes: (exponent field non-zero -> leading bit, scale) = {got.get(True)}, (zero -> ..) = {got.get(False)}; binary16 needs (True, field - 15) and (False, -14): '
              f'sub-normal coordinates (|x| < 2**-14) are decoded at half their value while the writer still encodes them with exponent -14', file=UNPACK)
