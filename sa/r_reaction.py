# -*- coding: utf-8 -*-
"""C15: role order, per-role sorting, condensed-graph side provenance, dynamic signature tables."""
import ast
from itertools import product
from .core import AnalysisError
from .astutil import src, strip_doc, expand_locals
from .tables import module_literal

RX = 'chython.containers.reaction'
SMI = 'chython.algorithms.smiles'


def rule_roles(ck, repo, R):
    ck.rule(R, 'the reaction writer iterates (reactants, reagents, products) and joins with ">" ; the reader unpacks smi.split(">") in the same order; '
               'inside a role the (molecule, string, order) triples are sorted by the string unless "!c" is requested; radical and fragment CX indices '
               'are computed after that sort, in the same global order the reader uses')
    f = repo.func(f'{RX}:ReactionContainer.__format__')
    loops = [n for n in ast.walk(f.node) if isinstance(n, ast.For) and isinstance(n.iter, ast.Tuple) and all(src(e).startswith('self.') for e in n.iter.elts)]
    ck.require(len(loops) == 1, 'ReactionContainer.__format__: role loop not found')
    lp = loops[0]
    order = [src(e) for e in lp.iter.elts]
    ck.decide(order == ['self.reactants', 'self.reagents', 'self.products'], R, 'writer:role-order', order,
              f'writer emits roles in the order {order}; reaction SMILES is reactants>reagents>products', file=f.file, line=lp.lineno, func=f.qualname)
    joins = [src(n) for n in ast.walk(f.node) if isinstance(n, ast.Call) and isinstance(n.func, ast.Attribute) and n.func.attr == 'join' and src(n.func.value) == "'>'"]
    ck.decide(len(joins) == 2 and all(j == "'>'.join(sig)" for j in joins), R, 'writer:join', joins, f'role strings are joined as {joins}', file=f.file, line=f.lineno)
    # sort inside the role, before anything index-like is computed
    body = lp.body
    sort_idx = None
    for i, st in enumerate(body):
        if isinstance(st, ast.If) and any(isinstance(c, ast.Call) and src(c.func) == 'mso.sort' for c in ast.walk(st)):
            sort_idx = i
            test = src(st.test)
            call = next(c for c in ast.walk(st) if isinstance(c, ast.Call) and src(c.func) == 'mso.sort')
            key = next((src(k.value) for k in call.keywords if k.arg == 'key'), None)
            from .r_query import dnf as _dnf, simplify as _simplify
            from .astutil import expand_locals as _xl0
            same_test = _simplify(_dnf(_xl0(st.test, f.node))) == _simplify(_dnf(ast.parse("not format_spec or '!c' not in format_spec", mode='eval').body))
            ck.decide(same_test and key == 'itemgetter(1)', R, 'writer:sort', (test, key),
                      f'per-role sort runs under `{test}` with key {key}; expected: unless "!c", by the molecule string', file=f.file, line=st.lineno, func=f.qualname)
    ck.decide(sort_idx is not None, R, 'writer:sort-present', None, 'molecules of a role are no longer sorted by their strings: the reaction string depends on molecule order',
              file=f.file, line=lp.lineno, func=f.qualname)
    if sort_idx is not None:
        later = body[sort_idx + 1:]
        uses_after = any('radicals.extend' in src(s) or 'contract.append' in src(s) for s in later)
        uses_before = any('radicals.extend' in src(s) or 'contract.append' in src(s) for s in body[:sort_idx])
        ck.decide(uses_after and not uses_before, R, 'writer:cx-after-sort', None, 'CX radical / fragment indices are computed before the per-role sort', file=f.file, line=lp.lineno)
    mso = [n for n in ast.walk(lp) if isinstance(n, ast.Assign) and src(n.targets[0]) == 'mso']
    ck.decide(len(mso) == 1 and '_return_order=True' in src(mso[0].value) and 'for m in ml' in src(mso[0].value), R, 'writer:triples', None,
              'per-role triples are no longer (molecule, string, written order)', file=f.file, line=lp.lineno)
    rd = repo.func('chython.files.daylight.smiles:smiles')
    unp = [n for n in ast.walk(rd.node) if isinstance(n, ast.Assign) and isinstance(n.targets[0], ast.Tuple) and src(n.value) == "smi.split('>')"]
    ck.require(len(unp) == 1, "smiles(): `... = smi.split('>')` not found")
    got = [src(e) for e in unp[0].targets[0].elts]
    ck.decide(got == ['reactants', 'reagents', 'products'], R, 'reader:role-order', got, f'reader unpacks the three ">" parts as {got}', file=rd.file, line=unp[0].lineno, func=rd.qualname)
    # reader's global order for CX indices
    chains = [src(n) for n in ast.walk(rd.node) if isinstance(n, ast.Call) and src(n.func) == 'chain' and 'record[' in src(n)]
    ck.decide(chains and all(c == "chain(record['reactants'], record['reagents'], record['products'])" for c in chains), R, 'reader:global-order', chains,
              f'reader enumerates molecules for CX indices as {chains}', file=rd.file, line=rd.lineno)
    mols = repo.func(f'{RX}:ReactionContainer.molecules')
    ck.decide('chain(self.reactants, self.reagents, self.products)' in src(mols.node), R, 'molecules():order', None, 'ReactionContainer.molecules() order changed', file=mols.file, line=mols.lineno)
    cr = repo.func('chython.files._convert:create_reaction')
    role_of = {}
    for n_ in ast.walk(cr.node):
        if isinstance(n_, ast.Tuple) and len(n_.elts) == 3 and isinstance(n_.elts[0], ast.Name) and isinstance(n_.elts[1], ast.Subscript) \
                and src(n_.elts[1].value) == 'data' and isinstance(n_.elts[1].slice, ast.Constant):
            role_of[n_.elts[0].id] = n_.elts[1].slice.value
    ctor = [c for c in ast.walk(cr.node) if isinstance(c, ast.Call) and src(c.func) == '_r_cls' and len(c.args) >= 3]
    passed = [role_of.get(a.id) if isinstance(a, ast.Name) else None for a in ctor[0].args[:3]] if len(ctor) == 1 else None
    ck.decide(passed == ['reactants', 'products', 'reagents'], R, 'create_reaction:roles', passed,
              'create_reaction no longer passes (reactants, products, reagents) built from the same-named record lists', file=cr.file, line=cr.lineno)
    ck.floor(R, 7)


def _side_of(node, self_names, other_names):
    """'self' / 'other' / 'both' / None for the provenance of the values in an expression"""
    s = {n.id for n in ast.walk(node) if isinstance(n, ast.Name)} | {src(n) for n in ast.walk(node) if isinstance(n, ast.Attribute)}
    a = any(x == 'self' or x.startswith('self.') for x in s) or bool(s & self_names)
    b = any(x == 'other' or x.startswith('other.') for x in s) or bool(s & other_names)
    return 'both' if a and b else 'self' if a else 'other' if b else None


def _center_selectors(fn):
    """{(table, selection)}: which keys of self._atoms / self._bonds the function collects, for the comprehension and the loop spellings"""
    out = set()

    def items_of(it):
        if isinstance(it, ast.Call) and isinstance(it.func, ast.Attribute) and it.func.attr == 'items' and isinstance(it.func.value, ast.Attribute) \
                and src(it.func.value.value) == 'self':
            return it.func.value.attr
        return None

    def kind(cond, v):
        """classify a selection condition over the value variable v"""
        if src(cond) == f'{v}.is_dynamic':
            return 'value-dynamic'
        if isinstance(cond, ast.Call) and src(cond.func) == 'any' and len(cond.args) == 1 and isinstance(cond.args[0], (ast.GeneratorExp, ast.ListComp)):
            g = cond.args[0]
            if len(g.generators) == 1 and not g.generators[0].ifs and src(g.generators[0].iter) == f'{v}.values()' \
                    and src(g.elt) == f'{src(g.generators[0].target)}.is_dynamic':
                return 'any-value-dynamic'
        return 'other:' + src(cond)
    for n in ast.walk(fn):
        if isinstance(n, (ast.SetComp, ast.GeneratorExp, ast.ListComp)) and len(n.generators) == 1:
            g = n.generators[0]
            t = items_of(g.iter)
            if t and isinstance(g.target, ast.Tuple) and len(g.target.elts) == 2 and src(n.elt) == src(g.target.elts[0]):
                v = src(g.target.elts[1])
                out.add((t, kind(g.ifs[0], v) if len(g.ifs) == 1 else 'other:%d conditions' % len(g.ifs)))
        elif isinstance(n, ast.For):
            t = items_of(n.iter)
            if t and isinstance(n.target, ast.Tuple) and len(n.target.elts) == 2:
                k, v = src(n.target.elts[0]), src(n.target.elts[1])
                body = n.body
                if len(body) == 1 and isinstance(body[0], ast.If) and not body[0].orelse and len(body[0].body) == 1 \
                        and isinstance(body[0].body[0], ast.Expr) and src(body[0].body[0].value).endswith(f'.add({k})'):
                    out.add((t, kind(body[0].test, v)))
                elif len(body) == 1 and isinstance(body[0], ast.For) and src(body[0].iter) == f'{v}.values()' and not body[0].orelse:
                    b = src(body[0].target)
                    ib = body[0].body
                    if len(ib) == 1 and isinstance(ib[0], ast.If) and src(ib[0].test) == f'{b}.is_dynamic' and not ib[0].orelse \
                            and isinstance(ib[0].body[0], ast.Expr) and src(ib[0].body[0].value).endswith(f'.add({k})') \
                            and (len(ib[0].body) == 1 or (len(ib[0].body) == 2 and isinstance(ib[0].body[1], ast.Break))):
                        out.add((t, 'any-value-dynamic'))
                    else:
                        out.add((t, 'other:loop'))
                else:
                    out.add((t, 'other:loop'))
    return out


def rule_sides(ck, repo, R):
    ck.rule(R, 'in MoleculeContainer.compose values drawn from self flow only into the reactant slot (first argument / index 0) and values from '
               'other only into the product slot; ReactionContainer.compose composes (reagents + reactants) ^ products; is_dynamic is the '
               'disjunction of exactly the reactant/product attribute pairs and center_atoms is their union')
    f = repo.func('chython.containers.molecule:MoleculeContainer.compose')
    # loops: which container does the loop walk?
    for loop in [n for n in f.node.body if isinstance(n, ast.For)]:
        it = src(loop.iter)
        if 'self._atoms.keys() - common' in it:
            side = 'self'
        elif 'other._atoms.keys() - common' in it:
            side = 'other'
        else:
            continue
        for call in ast.walk(loop):
            if isinstance(call, ast.Call) and src(call.func) == 'DynamicBond' and len(call.args) == 2:
                a0, a1 = src(call.args[0]), src(call.args[1])
                want = ('bond.order', 'None') if side == 'self' else ('None', 'bond.order')
                ck.decide((a0, a1) == want, R, f'{side}-only:DynamicBond', (a0, a1),
                          f'bond of an atom that exists only in `{side}` to a common atom is built as DynamicBond({a0}, {a1}); expected DynamicBond{want} '
                          f'({"broken" if side == "self" else "formed"} bond)', file=f.file, line=call.lineno, func=f.qualname)
            if isinstance(call, ast.Call) and src(call.func) == 'DynamicElement.from_atom':
                ck.decide(src(call.args[0]) == f'{side}._atoms[n]', R, f'{side}-only:atom', src(call.args[0]),
                          f'atom present only in `{side}` is taken from {src(call.args[0])}', file=f.file, line=call.lineno, func=f.qualname)
            if isinstance(call, ast.For) and 'items()' in src(call.iter):
                ck.decide(src(call.iter) == f'{side}._bonds[n].items()', R, f'{side}-only:bonds', src(call.iter),
                          f'bonds of an atom present only in `{side}` are read from {src(call.iter)}', file=f.file, line=call.lineno, func=f.qualname)
    slots = {}
    for n in ast.walk(f.node):
        if isinstance(n, ast.Assign) and isinstance(n.targets[0], ast.Subscript) and src(n.targets[0].value) == 'an[m]' and src(n.value) == 'bond.order':
            # find the enclosing for to know the source
            slots[src(n.targets[0].slice)] = n
    parents = {}
    for p in ast.walk(f.node):
        for c in ast.iter_child_nodes(p):
            parents[c] = p
    for idx, node in slots.items():
        p = parents.get(node)
        srcloop = None
        while p is not None:
            if isinstance(p, ast.For) and '_bonds[n].items()' in src(p.iter):
                srcloop = src(p.iter)
                break
            p = parents.get(p)
        want = {'0': 'self._bonds[n].items()', '1': 'other._bonds[n].items()'}.get(idx)
        ck.decide(srcloop == want, R, f'common:order-slot-{idx}', srcloop, f'slot {idx} of the common-atom bond pair is filled from {srcloop}; expected {want}',
                  file=f.file, line=node.lineno, func=f.qualname)
    ck.decide(set(slots) == {'0', '1'}, R, 'common:both-slots', sorted(slots), 'common-atom bonds no longer record both the reactant and the product order', file=f.file, line=f.lineno)
    fa = [c for c in ast.walk(f.node) if isinstance(c, ast.Call) and src(c.func) == 'DynamicElement.from_atoms']
    ck.decide(len(fa) == 1 and [src(a) for a in fa[0].args] == ['self._atoms[n]', 'other._atoms[n]'], R, 'common:atoms', [src(a) for a in fa[0].args] if fa else None,
              'common atoms are no longer built as from_atoms(self atom, other atom)', file=f.file, line=f.lineno)
    db = [c for c in ast.walk(f.node) if isinstance(c, ast.Call) and src(c.func) == 'DynamicBond' and [src(a) for a in c.args] == ['o1', 'o2']]
    from .astutil import expand_locals as _xl, single_defs as _sd
    _rows = {k for k, v in _sd(f.node).items() if isinstance(v, ast.Subscript)}  # an = adj[n]
    unp = [n for n in ast.walk(f.node) if isinstance(n, ast.For) and 'adj[n].items()' in src(_xl(n.iter, f.node, only=_rows))]
    ck.decide(len(db) == 1 and unp and '(o1, o2)' in src(unp[0].target), R, 'common:bond', None, 'common bonds are no longer DynamicBond(reactant order, product order)', file=f.file, line=f.lineno)
    # from_atoms puts atom1 into the reactant fields
    fr = repo.func('chython.periodictable.base.dynamic:DynamicElement.from_atoms')
    asg = {src(n.targets[0]): src(n.value) for n in ast.walk(fr.node) if isinstance(n, ast.Assign) and src(n.targets[0]).startswith('dynamic._')}
    want = {'dynamic._isotope': 'atom1.isotope', 'dynamic._charge': 'atom1.charge', 'dynamic._p_charge': 'atom2.charge', 'dynamic._is_radical': 'atom1.is_radical',
            'dynamic._p_is_radical': 'atom2.is_radical'}
    ck.decide(asg == want, R, 'from_atoms:fields', asg, f'DynamicElement.from_atoms assigns {asg}', file=fr.file, line=fr.lineno, func=fr.qualname)
    rc = repo.func(f'{RX}:ReactionContainer.compose')
    rets = [n for n in ast.walk(rc.node) if isinstance(n, ast.Return) and isinstance(n.value, ast.BinOp) and isinstance(n.value.op, ast.BitXor)]

    def side_roles(e):
        """roles united (with the copying `or_`) into the operand e of the final `^`; None when the shape is not reduce(or_, <roles>)"""
        vals = []
        if isinstance(e, ast.Name):
            for n in ast.walk(rc.node):
                if isinstance(n, ast.Assign) and any(isinstance(t, ast.Name) and t.id == e.id for t in n.targets):
                    vals += [n.value.body, n.value.orelse] if isinstance(n.value, ast.IfExp) else [n.value]
        else:
            vals = [e]
        roles, ops = set(), set()
        for v in vals:
            for c in ast.walk(v):
                if isinstance(c, ast.Call) and isinstance(c.func, ast.Name) and c.func.id == 'reduce' and len(c.args) >= 2:
                    ops.add(src(c.args[0]))
                    arg = expand_locals(c.args[1], rc.node)
                    for a in ast.walk(arg):
                        if isinstance(a, ast.Attribute) and isinstance(a.value, ast.Name) and a.value.id == 'self':
                            roles.add(a.attr.lstrip('_'))
        return roles, ops
    ok = False
    got = None
    if len(rets) == 1:
        lroles, lops = side_roles(rets[0].value.left)
        rroles, rops = side_roles(rets[0].value.right)
        got = (sorted(lroles), sorted(lops), sorted(rroles), sorted(rops))
        ok = lroles == {'reagents', 'reactants'} and rroles == {'products'} and lops == {'or_'} and rops == {'or_'}
    ck.decide(ok, R, 'reaction:compose', got,
              f'ReactionContainer.compose is no longer reduce(or_, reagents + reactants) ^ reduce(or_, products) (copying union on both sides): found {got}',
              file=rc.file, line=rc.lineno, func=rc.qualname)
    x = repo.func('chython.containers.molecule:MoleculeContainer.__xor__')
    ck.decide('return self.compose(other)' in src(x.node), R, 'xor', None, '^ no longer composes self (left) with other (right)', file=x.file, line=x.lineno)
    # dynamic flags
    de = repo.cls('chython.periodictable.base.dynamic:DynamicElement').method('is_dynamic')
    b = strip_doc(de.node.body)
    from .r_query import dnf as _dnf2, simplify as _simp2
    ok = len(b) == 1 and isinstance(b[0], ast.Return) and b[0].value is not None and \
        _simp2(_dnf2(b[0].value)) == _simp2(_dnf2(ast.parse('self.charge != self.p_charge or self.is_radical != self.p_is_radical', mode='eval').body))
    ck.decide(ok, R, 'atom:is_dynamic', src(b[0].value) if b else None, 'DynamicElement.is_dynamic is no longer (charge differs) or (radical state differs)', file=de.file, line=de.lineno)
    dbd = repo.cls('chython.containers.bonds:DynamicBond').method('is_dynamic')
    b = strip_doc(dbd.node.body)
    ck.decide(len(b) == 1 and src(b[0].value) in ('self.order != self.p_order', 'self.p_order != self.order'), R, 'bond:is_dynamic', src(b[0].value) if b else None,
              'DynamicBond.is_dynamic is no longer order != p_order', file=dbd.file, line=dbd.lineno)
    ca = repo.func('chython.containers.cgr:CGRContainer.center_atoms')
    sel = _center_selectors(ca.node)
    ck.decide(sel == {('_atoms', 'value-dynamic'), ('_bonds', 'any-value-dynamic')}, R, 'center_atoms', sorted(sel),
              'center_atoms is no longer the union of dynamic atoms and atoms with a dynamic bond', file=ca.file, line=ca.lineno)
    ck.floor(R, 16)


def rule_dynamic_tables(ck, repo, R):
    ck.rule(R, 'dyn_order_str covers every (order, p_order) pair over {None,1,2,3,4,8} except (None, None) and is injective apart from nothing; '
               'dyn_charge_str covers all 81 charge pairs injectively; dyn_radical_str covers the three dynamic/radical cases')
    d = module_literal(repo, SMI, 'dyn_order_str')
    m = repo.module(SMI)
    line = m.assigns['dyn_order_str'].lineno
    orders = (None, 1, 2, 3, 4, 8)
    want = {(a, b) for a in orders for b in orders} - {(None, None)}
    ck.decide(set(d) == want, R, 'order:complete', len(d), f'dyn_order_str lacks {sorted(want - set(d), key=str)} / has extra {sorted(set(d) - want, key=str)}', file=m.relpath, line=line)
    vals = list(d.values())
    dup = sorted({v for v in vals if vals.count(v) > 1})
    ck.decide(not dup, R, 'order:injective', None, f'dyn_order_str maps different bond pairs to the same token {dup}', file=m.relpath, line=line)
    sym = module_literal(repo, SMI, 'order_str')
    for (a, b), v in sorted(d.items(), key=str):
        exp = sym[a] if a == b else f'[{sym[a]}>{sym[b]}]'
        if a == b == 1:
            exp = ''
        ck.decide(v == exp, R, f'order:{a}>{b}', v, f'dyn_order_str[{(a, b)}] = {v!r}; the token scheme gives {exp!r}', file=m.relpath, line=line)
    disp = m.assigns['dyn_order_str']
    ck.decide(len(disp.keys) == len(d), R, 'order:no-duplicate-keys', len(disp.keys), 'dict display repeats a key', file=m.relpath, line=line)
    # charges: evaluate the comprehension by constant folding
    cs = module_literal(repo, SMI, 'charge_str')
    comp = m.assigns.get('dyn_charge_str')
    ok_shape = isinstance(comp, ast.DictComp) and src(comp.key) == '(i, j)' and src(comp.value) == "f'{charge_str[i]}>{charge_str[j]}' if i != j else charge_str[i]" \
        and src(comp.generators[0].iter) == 'product(range(-4, 5), repeat=2)'
    if not ok_shape:
        raise AnalysisError('dyn_charge_str comprehension has an unknown shape')
    table = {(i, j): (f'{cs[i]}>{cs[j]}' if i != j else cs[i]) for i, j in product(range(-4, 5), repeat=2)}
    table[(0, 0)] = ''
    vals = list(table.values())
    dup = sorted({v for v in vals if vals.count(v) > 1})
    ck.decide(len(table) == 81 and not dup and set(cs) == set(range(-4, 5)), R, 'charge:injective', len(table), f'dyn_charge_str is not injective over the 81 charge pairs: {dup}', file=m.relpath,
              line=comp.lineno)
    dr = module_literal(repo, SMI, 'dyn_radical_str')
    ck.decide(set(dr) == {(True, True), (True, False), (False, True)} and len(set(dr.values())) == 3, R, 'radical:table', dr, f'dyn_radical_str is {dr}', file=m.relpath, line=line)
    fa = repo.func(f'{SMI}:CGRSmiles._format_atom')
    from .astutil import expand_locals, single_defs

    def _keys(table):
        only = set(single_defs(fa.node)) - {'atom'}
        return {src(expand_locals(n.slice, fa.node, only=only)) for n in ast.walk(fa.node) if isinstance(n, ast.Subscript) and src(n.value) == table}
    ck.decide(_keys('dyn_charge_str') == {'(atom.charge, atom.p_charge)'} and _keys('dyn_radical_str') == {'(atom.is_radical, atom.p_is_radical)'}, R, 'cgr:atom-lookup', None,
              'CGR atom token no longer looks up (reactant, product) pairs in that order', file=fa.file, line=fa.lineno)
    fb = repo.func(f'{SMI}:CGRSmiles._format_bond')
    ck.decide('dyn_order_str[bond.order, bond.p_order]' in src(fb.node), R, 'cgr:bond-lookup', None, 'CGR bond token no longer looks up (order, p_order)', file=fb.file, line=fb.lineno)
    ck.floor(R, 40)


def _chain_roles(call):
    """chain(X.a, X.b, ...) or chain(d['a'], d['b'], ...) -> ['a', 'b', ...] (None when an argument has another form)"""
    if not (isinstance(call, ast.Call) and isinstance(call.func, ast.Name) and call.func.id == 'chain'):
        return None
    out = []
    for a in call.args:
        if isinstance(a, ast.Attribute):
            out.append(a.attr.lstrip('_'))
        elif isinstance(a, ast.Subscript) and isinstance(a.slice, ast.Constant) and isinstance(a.slice.value, str):
            out.append(a.slice.value)
        else:
            return None
    return out


def rule_role_zip(ck, repo, R, select, floor):
    """every positional pairing of ReactionContainer.molecules() with per-role record data lists the roles in the order molecules() yields them"""
    ck.rule(R, 'wherever reaction molecules are paired positionally with parsed per-role data (zip(rxn.molecules(), chain(d[role], ...))), the '
               'roles are chained in exactly the order ReactionContainer.molecules() yields them (read from its source), so stereo marks / '
               'post-processing of one role are never applied to the molecules of another')
    rc = repo.cls('chython.containers.reaction:ReactionContainer')
    ck.require(rc is not None, 'ReactionContainer not found')
    f = repo.lookup(rc, 'molecules')
    ck.require(f is not None, 'ReactionContainer.molecules not found')
    order = None
    for n in ast.walk(f.node):
        if isinstance(n, ast.Return):
            order = _chain_roles(n.value)
    ck.require(order and sorted(order) == ['products', 'reactants', 'reagents'], f'ReactionContainer.molecules: unexpected form ({order})')
    n_sites = 0
    for fn in repo.all_functions():
        if not select(fn):
            continue
        for n in ast.walk(fn.node):
            if not (isinstance(n, ast.Call) and isinstance(n.func, ast.Name) and n.func.id == 'zip' and len(n.args) == 2):
                continue
            a, b = n.args
            mols = [x for x in (a, b) if isinstance(x, ast.Call) and isinstance(x.func, ast.Attribute) and x.func.attr == 'molecules']
            if not mols:
                continue
            other = b if mols[0] is a else a
            other = expand_locals(other, fn.node)  # `parsed = chain(...); zip(rxn.molecules(), parsed)`
            roles = _chain_roles(other)
            key = f'{fn.fq}:zip@{src(other)[:60]}'
            n_sites += 1
            if roles is None:
                raise AnalysisError(f'{fn.fq}: molecules() is paired with `{src(other)[:80]}`, a form this rule does not know')
            ck.decide(roles == order, R, key, f'roles {roles} == molecules() order',
                      f'{fn.qualname} pairs molecules() (order {order}) with data chained as {roles}: the data of one role is applied to the molecules of another',
                      file=fn.file, line=n.lineno, func=fn.qualname, construct=src(n)[:140])
    ck.count(f'{R}: pairing sites', n_sites)
    ck.floor(R, floor)


def rule_hash_covers_eq(ck, repo, R, classes):
    """__hash__ hashes each attribute __eq__ compares between two objects of the class, once: a field hashed twice in place of its partner makes objects
    that differ in the partner collide systematically (and everything keyed by the hash -- Morgan classes, signatures -- merges them)"""
    ck.rule(R, 'for the dynamic (reactant/product pair) atom and bond classes and the query bond: the multiset of `self.<attr>` read by __hash__ equals the set of '
               'attributes compared as `self.<attr> == other.<attr>` in __eq__ (no attribute twice, none missing)')
    n = 0
    for fq in classes:
        c = repo.cls(fq)
        h, e = c.method('__hash__'), c.method('__eq__')
        ck.require(h is not None and e is not None, f'{fq}: __hash__ / __eq__ not found')
        hashed = [x.attr for x in ast.walk(h.node) if isinstance(x, ast.Attribute) and isinstance(x.value, ast.Name) and x.value.id == 'self' and isinstance(x.ctx, ast.Load)]
        compared = set()
        for x in ast.walk(e.node):
            if isinstance(x, ast.Compare) and len(x.ops) == 1 and isinstance(x.ops[0], (ast.Eq, ast.NotEq)):
                l, r = x.left, x.comparators[0]
                if isinstance(l, ast.Attribute) and isinstance(r, ast.Attribute) and l.attr == r.attr and {src(l.value), src(r.value)} == {'self', 'other'}:
                    compared.add(l.attr)
        n += 1
        dup = sorted({a for a in hashed if hashed.count(a) > 1})
        ck.decide(not dup and set(hashed) == compared, R, c.name, sorted(hashed),
                  f'{c.name}.__hash__ reads {hashed}' + (f' ({dup} twice)' if dup else '') + f' while __eq__ compares {sorted(compared)}: '
                  f'objects differing only in {sorted(compared - set(hashed)) or sorted(set(hashed) - compared)} hash alike / unlike against __eq__',
                  file=h.file, line=h.lineno, func=h.qualname, construct=' '.join(src(h.node.body[-1]).split())[:120])
    ck.floor(R, len(classes))


def rule_fragment_counter(ck, repo, R):
    """C15: the CXSMILES `f:` block numbers the dot-separated pieces of the whole reaction string; the reader counts them the same way (one per piece). The
    writer's running index must therefore advance by the number of components of every molecule it writes -- decided by evaluating the statements that
    touch the counter for molecules with 1, 2 and 3 components"""
    from .r_query import _ev, _Unknown
    from .astutil import single_defs
    ck.rule(R, 'ReactionContainer.__format__: on every path through the per-molecule loop the fragment counter grows by that molecule\'s connected_components_count '
               '(1 for an ordinary molecule); evaluated for 1, 2 and 3 components')
    f = repo.func(f'{RX}:ReactionContainer.__format__')
    loops = [l for l in ast.walk(f.node) if isinstance(l, ast.For) and any(isinstance(a, ast.AugAssign) and src(a.target) == 'count' for a in ast.walk(l))]
    ck.require(len(loops) >= 1, '__format__: loop advancing `count` not found')
    lp = min(loops, key=lambda l: sum(1 for _ in ast.walk(l)))  # the innermost one

    def run(stmts, env, total):
        for st in stmts:
            if isinstance(st, ast.Assign) and isinstance(st.targets[0], ast.Name) and 'connected_components_count' in src(st.value):
                try:
                    env = dict(env, **{st.targets[0].id: _ev(st.value, env)})
                except _Unknown:
                    pass
            elif isinstance(st, ast.AugAssign) and src(st.target) == 'count':
                v = _ev(st.value, env)
                total += v if isinstance(st.op, ast.Add) else -v
            elif isinstance(st, ast.If):
                try:
                    t = bool(_ev(st.test, env))
                except _Unknown:
                    continue  # a test about something else
                total = run(st.body if t else st.orelse, env, total)
        return total
    bad = []
    for cc in (1, 2, 3):
        env = {'m.connected_components_count': cc}
        for tname in ('m',):
            pass
        try:
            got = run(lp.body, env, 0)
        except _Unknown as e:
            raise AnalysisError(f'__format__: counter arithmetic not understood ({e})')
        if got != cc:
            bad.append((cc, got))
    ck.decide(not bad, R, 'advance-by-components', None,
              f'ReactionContainer.__format__: for a molecule with (components, counter advance) = {bad} the fragment index does not advance by the number of written pieces: '
              f'the f: block of a later multi-component molecule points at the wrong pieces, and the reader regroups other molecules', file=f.file, line=lp.lineno, func=f.qualname)
