# -*- coding: utf-8 -*-
"""C05/C06/C14 specific structural rules"""
import ast
from .core import AnalysisError
from .astutil import src, strip_doc, conjuncts

RINGS = 'chython.algorithms.rings'
MOL = 'chython.containers.molecule'


def rule_one_graph(ck, repo, R):
    ck.rule(R, 'ring count and ring perception use one graph: rings_count computes bonds - atoms + components from the single variable bound to '
               'not_special_connectivity, sssr hands the same cached graph and that count to _sssr, and the only filter of not_special_connectivity '
               'is the coordinate order 8')
    rc = repo.func(f'{RINGS}:Rings.rings_count')
    body = strip_doc(rc.node.body)
    binds = [s for s in body if isinstance(s, ast.Assign) and src(s.value) == 'self.not_special_connectivity']
    ck.require(len(binds) == 1 and isinstance(binds[0].targets[0], ast.Name), 'rings_count: the graph variable is no longer bound once to not_special_connectivity')
    g = binds[0].targets[0].id
    ret = [s for s in body if isinstance(s, ast.Return)]
    ck.require(len(ret) == 1, 'rings_count: single return not found')
    names = {n.id for n in ast.walk(ret[0]) if isinstance(n, ast.Name)} - {'sum', 'len', 'x', '_connected_components'}
    selfuses = [src(n) for n in ast.walk(ret[0]) if isinstance(n, ast.Attribute) and src(n.value) == 'self']
    ck.decide(names == {g} and not selfuses, R, 'rings_count:operands', sorted(names) + selfuses,
              f'rings_count combines {sorted(names) + selfuses}: edges, nodes and components must all be taken from the one graph `{g}`', file=rc.file, line=rc.lineno, func=rc.qualname)
    e = ret[0].value
    shape = isinstance(e, ast.BinOp) and isinstance(e.op, ast.Add) and isinstance(e.left, ast.BinOp) and isinstance(e.left.op, ast.Sub)
    ok = False
    if shape:
        edges, nodes, comps = src(e.left.left), src(e.left.right), src(e.right)
        ok = edges == f'sum((len(x) for x in {g}.values())) // 2' and nodes == f'len({g})' and comps == f'len(_connected_components({g}))'
    ck.decide(ok, R, 'rings_count:formula', src(e), f'rings_count returns `{src(e)}`; expected edges - nodes + components of `{g}`', file=rc.file, line=rc.lineno, func=rc.qualname)
    ss = repo.func(f'{RINGS}:Rings.sssr')
    calls = [n for n in ast.walk(ss.node) if isinstance(n, ast.Call) and src(n.func) == '_sssr']
    ck.decide(len(calls) == 1 and [src(a) for a in calls[0].args] == ['self.not_special_connectivity', 'self.rings_count'], R, 'sssr:arguments',
              [src(a) for a in calls[0].args] if calls else None, 'sssr no longer searches not_special_connectivity for rings_count rings', file=ss.file, line=ss.lineno, func=ss.qualname)
    nsc = repo.func(f'{RINGS}:Rings.not_special_connectivity')
    from .r_query import canon_atom as _canon
    conds = [n.test for n in ast.walk(nsc.node) if isinstance(n, ast.If)] + [i for n in ast.walk(nsc.node) if isinstance(n, ast.comprehension) for i in n.ifs]
    tests = [src(c) for c in conds]

    def only_eight(c):
        a, pol = _canon(c)
        return a[0] == 'ne' and pol and '8' in a[1:] and len(a) == 3
    ck.decide(len(conds) == 1 and only_eight(conds[0]) and 'self._bonds.items()' in src(nsc.node), R, 'not_special_connectivity:filter', tests,
              f'not_special_connectivity filters bonds by {tests}; only the coordinate order 8 may be ignored', file=nsc.file, line=nsc.lineno, func=nsc.qualname)
    adds = [n for n in ast.walk(nsc.node) if isinstance(n, ast.Assign) and isinstance(n.targets[0], ast.Subscript) and src(n.targets[0].value) == 'bonds']
    comps = [n for n in ast.walk(nsc.node) if isinstance(n, ast.DictComp) and 'self._bonds' in src(n.generators[0].iter) and not n.generators[0].ifs and len(n.generators) == 1]
    ck.decide(len(adds) == 1 or len(comps) == 1, R, 'not_special_connectivity:all-atoms', None, 'not_special_connectivity no longer creates an entry for every atom (isolated atoms count as components)', file=nsc.file, line=nsc.lineno)
    cc = repo.func(f'{RINGS}:Rings.connected_components')
    ck.decide('_connected_components(self._bonds)' in src(cc.node), R, 'connected_components', None, 'connected_components no longer walks the full adjacency', file=cc.file, line=cc.lineno)
    for name, dep in (('atoms_rings', 'self.sssr'), ('atoms_rings_sizes', 'self.atoms_rings')):
        f = repo.func(f'{RINGS}:Rings.{name}')
        uses = sorted({src(n) for n in ast.walk(f.node) if isinstance(n, ast.Attribute) and src(n.value) == 'self'})
        ck.decide(uses == [dep], R, f'{name}:source', uses, f'{name} derives from {uses}; expected only {dep}', file=f.file, line=f.lineno, func=f.qualname)


def rule_ring_marks(ck, repo, R):
    ck.rule(R, 'calc_labels assigns all six atom labels and the bond ring mark for every atom / bond of the adjacency on every pass, and the ring '
               'marks are derived only from atoms_rings / atoms_rings_sizes')
    f = repo.func(f'{MOL}:MoleculeContainer.calc_labels')
    loops = [n for n in f.node.body if isinstance(n, ast.For)]
    ck.require(len(loops) == 1 and 'self._bonds.items()' in src(loops[0].iter), 'calc_labels: outer loop over the adjacency not found')
    outer = loops[0]
    top = [s for s in outer.body if isinstance(s, ast.Assign)]
    assigned = {t.attr for s in top for t in s.targets if isinstance(t, ast.Attribute) and src(t.value) == 'atom'}
    need = {'_neighbors', '_heteroatoms', '_hybridization', '_explicit_hydrogens', '_in_ring', '_ring_sizes'}
    ck.decide(assigned == need, R, 'atom-labels', sorted(assigned), f'calc_labels assigns {sorted(assigned)} unconditionally per atom; the label slots are {sorted(need)}',
              file=f.file, line=outer.lineno, func=f.qualname)
    inner = [n for n in outer.body if isinstance(n, ast.For)]
    ck.require(len(inner) == 1, 'calc_labels: inner loop over neighbours not found')
    first = inner[0].body[0]
    def assigns_mark(st):
        """the statement assigns bond._in_ring on every path (plain assignment, or an if/else whose arms both start with it)"""
        if isinstance(st, ast.Assign):
            return src(st.targets[0]) == 'bond._in_ring'
        if isinstance(st, ast.If) and st.orelse:
            return all(any(assigns_mark(x) for x in blk) and not any(isinstance(y, (ast.Continue, ast.Break, ast.Return)) for x in blk for y in ast.walk(x))
                       for blk in (st.body, st.orelse))
        return False
    lead = []
    for st_ in inner[0].body:  # pure local assignments may precede it
        lead.append(st_)
        if assigns_mark(st_) or not (isinstance(st_, ast.Assign) and isinstance(st_.targets[0], ast.Name)):
            break
    ck.decide(assigns_mark(lead[-1]), R, 'bond-ring-mark-first', src(first)[:60],
              'bond._in_ring is no longer assigned as the first statement of the neighbour loop (a `continue` for coordinate bonds would skip it)', file=f.file, line=first.lineno, func=f.qualname)
    srcs = {src(n) for n in ast.walk(f.node) if isinstance(n, ast.Attribute) and src(n.value) == 'self'}
    ck.decide(srcs == {'self._atoms', 'self._bonds', 'self.atoms_rings', 'self.atoms_rings_sizes'}, R, 'label-sources', sorted(srcs),
              f'calc_labels reads {sorted(srcs)}', file=f.file, line=f.lineno)
    ring = {src(s.targets[0]): src(s.value) for s in top if src(s.targets[0]) in ('atom._in_ring', 'atom._ring_sizes')}
    ck.decide(ring == {'atom._in_ring': 'n in atoms_rings_sizes', 'atom._ring_sizes': 'atoms_rings_sizes.get(n) or set()'}, R, 'ring-mark-derivation', ring,
              f'atom ring marks are computed as {ring}', file=f.file, line=f.lineno)
    # neighbour classification is a partition: hydrogen -> explicit_hydrogens, carbon -> neither, anything else -> heteroatoms
    from .astutil import if_chain
    part = None
    for n in ast.walk(inner[0]):
        if isinstance(n, ast.If):
            ch = if_chain(n)
            incs = []
            for t, blk in ch:
                for st in blk:
                    if isinstance(st, ast.AugAssign) and src(st.target) in ('explicit_hydrogens', 'heteroatoms') and src(st.value) == '1':
                        incs.append((src(t) if t is not None else 'else', src(st.target)))
            if {x[1] for x in incs} == {'explicit_hydrogens', 'heteroatoms'}:
                part = incs
    sep = [src(st.target) for n in ast.walk(inner[0]) if isinstance(n, ast.If) for st in n.body if isinstance(st, ast.AugAssign) and src(st.target) in ('explicit_hydrogens', 'heteroatoms')]
    if part is None and len(sep) < 2:
        raise AnalysisError('calc_labels: explicit_hydrogens / heteroatoms counting not recognised')
    ok = part is not None and len(part) == 2 and part[0][1] == 'explicit_hydrogens' and part[0][0].endswith('== H') and part[1][1] == 'heteroatoms' and part[1][0].endswith('!= C')
    ck.decide(ok, R, 'neighbour-partition', part or sep,
              f'calc_labels classifies a neighbour as {part or sep}: explicit hydrogens and heteroatoms must be the two exclusive branches of one chain '
              f'(hydrogen counts as explicit hydrogen only; heteroatoms = neither H nor C)', file=f.file, line=inner[0].lineno, func=f.qualname)
    # coordinate bonds do not count as neighbours
    cont = [n for n in ast.walk(inner[0]) if isinstance(n, ast.If) and src(n.test) == 'bond == 8' and any(isinstance(x, ast.Continue) for x in n.body)]
    ck.decide(len(cont) == 1, R, 'coordinate-bonds-skipped', None, 'calc_labels no longer skips coordinate bonds when counting neighbours / hybridisation', file=f.file, line=inner[0].lineno)


def rule_output_alphabet(ck, repo, R):
    ck.rule(R, 'bond orders the Kekule search can emit are the constants 1 and 2 (every (atom, atom, order[, cut]) tuple in _kekule_component); '
               'thiele stores only 4 and 1 (and the 1/2 alternation of its ring tautomer fix)')
    m = repo.module('chython.algorithms.aromatics.kekule')
    f = m.functions.get('_kekule_component')
    ck.require(f is not None, '_kekule_component vanished')
    n = 0
    for call in ast.walk(f.node):
        if isinstance(call, ast.Call) and isinstance(call.func, ast.Attribute) and call.func.attr == 'append' and call.args and isinstance(call.args[0], ast.Tuple) \
                and len(call.args[0].elts) in (3, 4):
            o = call.args[0].elts[2]
            if isinstance(o, ast.Constant):
                n += 1
                ck.decide(o.value in (1, 2), R, f'kekule:{src(call)}', o.value, f'_kekule_component emits bond order {o.value!r} in `{src(call)}`: a Kekule form has only single and double bonds',
                          file=m.relpath, line=call.lineno, func='_kekule_component')
    ck.require(n >= 20, f'only {n} order tuples recognised in _kekule_component')
    th = repo.func('chython.algorithms.aromatics.thiele:Thiele.thiele')
    for a in ast.walk(th.node):
        if isinstance(a, ast.Assign) and isinstance(a.targets[0], ast.Attribute) and a.targets[0].attr == '_order':
            v = a.value
            if isinstance(v, ast.Constant):
                ck.decide(v.value in (1, 4), R, f'thiele:{src(a)}', v.value, f'thiele stores bond order {v.value!r}: `{src(a)}`', file=th.file, line=a.lineno, func=th.qualname)
            elif src(v) == 'o':
                ck.ok(R, f'thiele:{src(a)}', 'alternation order of the ring tautomer fix')
            else:
                raise AnalysisError(f'thiele: bond order source `{src(v)}` not recognised')
    no = [x.value for x in ast.walk(th.node) if isinstance(x, ast.Assign) and src(x.targets[0]) == 'new_order']
    if not no:  # the alternation written in place: (current, n, depth, 1 if order == 2 else 2)
        no = [x for x in ast.walk(th.node) if isinstance(x, ast.IfExp) and 'order' in src(x.test)]
    alt_ok = len(no) == 1 and src(no[0]) in ('1 if order == 2 else 2', '2 if order == 1 else 1', '2 if order != 2 else 1', '1 if order != 1 else 2', '3 - order')
    ck.decide(alt_ok, R, 'thiele:alternation', src(no[0]) if no else None,
              'ring tautomer fix no longer alternates orders 1 and 2', file=th.file, line=th.lineno)
    kk = repo.func('chython.algorithms.aromatics.kekule:Kekule.kekule')
    ck.decide('bonds[n][m]._order = b' in src(kk.node) and 'for n, m, b in kekule' in src(kk.node), R, 'kekule:applies-form', None,
              'kekule no longer applies the (n, m, order) triples of the found form', file=kk.file, line=kk.lineno)


def rule_heavy_atoms(ck, repo, R, P):
    ck.rule(R, 'the only normalisers whose write set contains the atom set are the ones the property exempts (hydrogen implicification / '
               'explicification, salt / metal / acid stripping and the pipeline that calls them); implicify removes only atoms compared == H, '
               'explicify adds only hydrogen atoms')
    allowed = {'Standardize.implicify_hydrogens', 'Standardize.explicify_hydrogens', 'Salts.remove_metals', 'Salts.remove_acids',
               'Standardize.canonicalize'}
    normalisers = ['Standardize.canonicalize', 'Standardize.standardize', 'Standardize.standardize_charges', 'Resonance.fix_resonance',
                   'AcidBase.neutralize', 'Standardize.implicify_hydrogens', 'Standardize.explicify_hydrogens', 'Standardize.remove_coordinate_bonds',
                   'Standardize.clean_isotopes', 'Salts.remove_metals', 'Salts.remove_acids', 'Salts.split_metal_salts', 'Kekule.kekule', 'Thiele.thiele',
                   'Saturation.saturate']
    by_q = {}
    for fq, ws in P.entry_writes.items():
        by_q[fq.split(':')[1]] = ws
    for q in normalisers:
        ws = by_q.get(q)
        ck.require(ws is not None, f'normaliser {q} reaches no raw write any more (renamed?)')
        atoms = sorted({(w[0].split(':')[1], w[1]) for w in ws if w[2] == 'ATOMS'})
        ck.decide(not atoms or q in allowed, R, q, atoms or 'no atom-set write',
                  f'{q} writes the atom set at {atoms}: only hydrogen (im)explicification and salt stripping may change the heavy-atom multiset',
                  file=repo.func(ws and next(iter(ws))[0]).file if atoms else None, func=q)
    imp = repo.func('chython.algorithms.standardize.molecule:Standardize.implicify_hydrogens')
    # the loop that collects removal candidates admits an atom only under  atom == H and (isotope is None or isotope == 1),
    # written as a positive `if` or as the negated early `continue` (compared as normalised DNF)
    from .r_query import dnf as _dnf, simplify as _simplify
    loops_ = [l for l in ast.walk(imp.node) if isinstance(l, ast.For) and isinstance(l.target, ast.Tuple) and len(l.target.elts) == 2 and
              src(l.iter) in ('atoms.items()', 'self._atoms.items()', 'self.atoms()')]
    ck.require(loops_, 'implicify_hydrogens: loop over the atoms not found')
    lp_ = loops_[0]
    av = src(lp_.target.elts[1])
    want_ = _simplify(_dnf(ast.parse(f'{av} == H and ({av}.isotope is None or {av}.isotope == 1)', mode='eval').body))
    first = lp_.body[0] if lp_.body else None
    got_ = None
    if isinstance(first, ast.If) and not first.orelse:
        if len(first.body) == 1 and isinstance(first.body[0], ast.Continue):
            got_ = _simplify(_dnf(first.test, False))   # `if not P: continue`
        elif len(lp_.body) == 1:
            got_ = _simplify(_dnf(first.test, True))    # `if P: ...`
    ck.decide(got_ is not None and got_ == want_, R, 'implicify:only-hydrogens', None,
              f'implicify_hydrogens no longer restricts removal candidates to (protium) hydrogen atoms (guard `{src(first.test) if isinstance(first, ast.If) else None}`)',
              file=imp.file, line=lp_.lineno, func=imp.qualname)
    exp = repo.func('chython.algorithms.standardize.molecule:Standardize.explicify_hydrogens')
    news = [src(n.value) for n in ast.walk(exp.node) if isinstance(n, ast.Assign) and isinstance(n.targets[0], ast.Subscript) and src(n.targets[0].value) == 'atoms']
    ck.decide(news == ['_H(implicit_hydrogens=0)'], R, 'explicify:only-hydrogens', news, f'explicify_hydrogens adds atoms {news}', file=exp.file, line=exp.lineno)


def rule_tautomer_donor_guard(ck, repo, R):
    ck.rule(R, 'thiele ring-tautomer fix moves one hydrogen (donor count := 0, acceptor count := 1): an atom may only enter the donor list under a guard that '
               'establishes it carries that hydrogen (six-membered ring nitrogen with exactly two bonds, or an explicit hydrogen-count test); acceptors are '
               'neutral ring nitrogens of odd rings')
    th = repo.func('chython.algorithms.aromatics.thiele:Thiele.thiele')
    parents = {}
    for p in ast.walk(th.node):
        for c in ast.iter_child_nodes(p):
            parents[c] = p
    adds = [n for n in ast.walk(th.node) if isinstance(n, ast.Call) and src(n.func) == 'donors.append']
    if len(adds) != 1:
        raise AnalysisError(f'thiele: expected one donors.append site, found {len(adds)}')
    from .astutil import conjuncts
    from .astutil import reach_conditions, expand_locals, single_defs
    counts_ = {k for k, v in single_defs(th.node).items() if isinstance(v, ast.Call) and src(v.func) == 'len' and src(v.args[0]).startswith('bonds[')}  # degree = len(bonds[n])
    guards = [src(expand_locals(c, th.node, only=counts_)) for c in reach_conditions(adds[0], th.node, parents)]
    two_bonds = any(g in ('b == 2', 'len(bonds[n]) == 2') for g in guards)
    has_h = any('implicit_hydrogens' in g for g in guards)
    ck.decide(two_bonds or has_h, R, 'donor-has-hydrogen', guards,
              f'thiele adds a ring nitrogen to the tautomer donors under {guards}: nothing establishes that it carries the hydrogen that the fix removes '
              f'(a three-bonded N would lose a hydrogen it does not have and the acceptor would gain one: formula changes)', file=th.file, line=adds[0].lineno, func=th.qualname)
    if two_bonds and 'b == 2' in guards:
        bdef = [n for n in ast.walk(th.node) if isinstance(n, ast.NamedExpr) and src(n.target) == 'b']
        ck.decide(len(bdef) == 1 and src(bdef[0].value) == 'len(bonds[n])', R, 'donor:b-is-bond-count', src(bdef[0].value) if bdef else None,
                  'the donor guard `b == 2` no longer tests the number of bonds of the atom', file=th.file, line=adds[0].lineno)
    ck.decide(('lr == 6' in guards or 'len(ring) == 6' in guards) and 'fix_tautomers' in guards, R, 'donor:six-ring', guards, f'donor guard is {guards}; expected a six-membered ring under fix_tautomers', file=th.file, line=adds[0].lineno)
    acc = [n for n in ast.walk(th.node) if isinstance(n, ast.Call) and src(n.func) == 'acceptors.update']
    ck.decide(len(acc) == 1 and '== N and (not a.charge)' in src(acc[0]) or len(acc) == 1 and '== N and not a.charge' in src(acc[0]), R, 'acceptor:neutral-N', src(acc[0])[:90] if acc else None,
              'acceptors are no longer restricted to neutral nitrogens', file=th.file, line=th.lineno)
    moves = sorted(src(n) for n in ast.walk(th.node) if isinstance(n, ast.Assign) and isinstance(n.targets[0], ast.Attribute) and n.targets[0].attr == '_implicit_hydrogens')
    ck.decide(moves == ['atoms[current]._implicit_hydrogens = 1', 'atoms[start]._implicit_hydrogens = 0'], R, 'move-is-balanced', moves,
              f'hydrogen move of the tautomer fix is {moves}: one hydrogen must leave the donor and arrive at the acceptor', file=th.file, line=th.lineno)


# ---- tentative writes: every path that does not commit rolls the write back ------------------------------------------------------------------
def rollback_holds(repo, fq):
    """True when the tentative-write analysis of fq finds no iteration exit with a net uncommitted charge change (used as the condition of the
    fix_resonance exemption of the mutator protocol)"""
    from .core import Check
    ck = Check('C14')
    try:
        rule_tentative_rollback(ck, repo, '_probe', [fq])
    except AnalysisError:
        return False
    return not ck.findings


def rule_tentative_rollback(ck, repo, R, funcs):
    """
    loops that try a raw charge change (`X._charge -= 1`), test it, and either commit (record the atoms in the witness set whose non-emptiness
    triggers recalculation + flush) or give up: on every path that gives up (continue / next iteration / break without commit) the net change of X._charge is 0
    """
    ck.rule(R, 'a tentative raw charge change inside a search loop is net zero on every path that leaves the iteration without recording the atoms in the '
               'witness set (the set whose non-emptiness triggers calc_implicit / flush_cache / calc_labels at the end): otherwise a rejected candidate leaves '
               'a changed charge behind with no recalculation and no flush')
    n_loops = 0
    for fq in funcs:
        f = repo.func(fq)
        ck.require(f is not None, f'{fq} not found')
        # witness names: `if W:` guarding a flush_cache call
        witnesses = set()
        for n in ast.walk(f.node):
            if isinstance(n, ast.If) and isinstance(n.test, ast.Name) and any(isinstance(c, ast.Call) and isinstance(c.func, ast.Attribute) and c.func.attr == 'flush_cache'
                                                                              for s in n.body for c in ast.walk(s)):
                witnesses.add(n.test.id)
        # ... or a flush reached only past a guard clause `if not W: return ..`
        from .astutil import reach_conditions, enclosing_map
        pm_ = enclosing_map(f.node)
        for c in ast.walk(f.node):
            if isinstance(c, ast.Call) and isinstance(c.func, ast.Attribute) and c.func.attr == 'flush_cache':
                for cond in reach_conditions(c, f.node, pm_):
                    if isinstance(cond, ast.Name):
                        witnesses.add(cond.id)
        ck.require(witnesses, f'{fq}: no witness-guarded flush found')

        def is_commit(s):
            return any(isinstance(c, ast.Call) and isinstance(c.func, ast.Attribute) and c.func.attr in ('add', 'append', 'update') and
                       isinstance(c.func.value, ast.Name) and c.func.value.id in witnesses for c in ast.walk(s))

        def delta_of(s):
            if isinstance(s, ast.AugAssign) and isinstance(s.target, ast.Attribute) and s.target.attr == '_charge' and isinstance(s.value, ast.Constant):
                d = s.value.value if isinstance(s.op, ast.Add) else -s.value.value if isinstance(s.op, ast.Sub) else None
                if d is None:
                    raise AnalysisError(f'{fq}: charge update `{src(s)}` not understood')
                return src(s.target.value), d
            return None

        def run(body, states):
            """states: set of (frozenset((target, delta)...), committed); returns (fallthrough states, exits [(kind, node, state)])"""
            exits = []
            cur = set(states)
            for s in body:
                if not cur:
                    break
                if isinstance(s, ast.If):
                    a, e1 = run(s.body, cur)
                    b, e2 = run(s.orelse, cur)
                    exits += e1 + e2
                    cur = a | b
                elif isinstance(s, ast.Try):
                    prefixes = set(cur)
                    st = set(cur)
                    for t in s.body:
                        st, e = run([t], st)
                        exits += e
                        prefixes |= st
                    out = set(st)
                    for h in s.handlers:
                        o, e = run(h.body, prefixes)
                        exits += e
                        out |= o
                    cur = out
                elif isinstance(s, (ast.For, ast.While)):
                    # inner loop: body may run zero or more times; commits / deltas inside are applied optimistically (may)
                    o, e = run(s.body, cur)
                    inner_exits = [x for x in e if x[0] in ('continue', 'break')]
                    exits += [x for x in e if x[0] not in ('continue', 'break')]
                    cur = cur | o | {x[2] for x in inner_exits}
                elif isinstance(s, ast.Continue):
                    exits += [('continue', s, st) for st in cur]
                    cur = set()
                elif isinstance(s, ast.Break):
                    exits += [('break', s, st) for st in cur]
                    cur = set()
                elif isinstance(s, (ast.Return, ast.Raise)):
                    exits += [('return', s, st) for st in cur]
                    cur = set()
                else:
                    d = delta_of(s)
                    new = set()
                    for deltas, committed in cur:
                        dd = dict(deltas)
                        if d is not None:
                            dd[d[0]] = dd.get(d[0], 0) + d[1]
                        new.add((frozenset((k, v) for k, v in dd.items() if v), committed or is_commit(s)))
                    cur = new
            return cur, exits

        for loop in ast.walk(f.node):
            if not isinstance(loop, (ast.For, ast.While)):
                continue
            direct = [s for s in ast.walk(ast.Module(body=loop.body, type_ignores=[])) if delta_of(s) is not None] if True else []
            # only the innermost loop that contains the charge updates directly in its own body tree (not through a nested loop)
            nested = [l for l in ast.walk(ast.Module(body=loop.body, type_ignores=[])) if isinstance(l, (ast.For, ast.While))]
            in_nested = {id(s) for l in nested for s in ast.walk(l)}
            own = [s for s in direct if id(s) not in in_nested]
            if not own:
                continue
            n_loops += 1
            fall, exits = run(loop.body, {(frozenset(), False)})
            bad = []
            for kind, node, (deltas, committed) in exits + [('end-of-iteration', loop.body[-1], st) for st in fall]:
                if deltas and not committed and kind != 'return':
                    bad.append((kind, node, dict(deltas)))
            key = f'{f.fq}:loop@{src(loop.target) if isinstance(loop, ast.For) else src(loop.test)}'
            ck.decide(not bad, R, key, f'{len(exits) + len(fall)} exit states, all net zero or committed',
                      (f'{f.qualname}: the iteration is left by `{bad[0][0]}` (line {bad[0][1].lineno}) with a net charge change {bad[0][2]} and nothing recorded in '
                       f'{sorted(witnesses)}: the candidate was rejected but its charge stays changed, and no recalculation / flush follows') if bad else None,
                      file=f.file, line=bad[0][1].lineno if bad else loop.lineno, func=f.qualname)
    ck.count(f'{R}: search loops with tentative charge writes', n_loops)
    ck.floor(R, 1)


def rule_exocyclic_double(ck, repo, R):
    ck.rule(R, 'thiele excludes ring atoms that carry a double bond which is not a bond of the candidate ring skeleton: the test is on the BOND (partner not among the ring '
               'neighbours of this atom: `m not in rings[n]`), with order 2. Testing the partner ATOM against all ring atoms misses double bonds that join two '
               'different candidate rings (fulvalene-like), which then get aromatised')
    f = repo.func('chython.algorithms.aromatics.thiele:Thiele.thiele')
    ck.require(f is not None, 'Thiele.thiele not found')
    asg = [n for n in ast.walk(f.node) if isinstance(n, ast.Assign) and src(n.targets[0]) == 'double_bonded']
    ck.require(len(asg) == 1, 'thiele: double_bonded assignment not found')
    if not isinstance(asg[0].value, ast.SetComp):
        # explicit loop form: for n[, nb] in rings[.items()]: for m, b in bonds[n].items(): if <cond>: double_bonded.add(n)
        adds = [c for c in ast.walk(f.node) if isinstance(c, ast.Call) and src(c.func) == 'double_bonded.add' and c.args]
        ck.require(len(adds) == 1, 'thiele: double_bonded is neither a set comprehension nor filled by one add() in a loop')
        parents_ = {}
        for p_ in ast.walk(f.node):
            for ch in ast.iter_child_nodes(p_):
                parents_[ch] = p_
        conds, loops_ = [], []
        p_ = parents_.get(adds[0])
        while p_ is not None and p_ is not f.node:
            if isinstance(p_, ast.If):
                conds += list(conjuncts(p_.test))
            elif isinstance(p_, ast.For):
                loops_.append(p_)
            p_ = parents_.get(p_)
        ck.require(len(loops_) >= 2, 'thiele: loops around double_bonded.add not recognised')
        inner_l, outer_l = loops_[0], loops_[1]
        n_var = src(adds[0].args[0])
        ck.require(isinstance(inner_l.target, ast.Tuple) and len(inner_l.target.elts) == 2 and src(inner_l.iter) == f'bonds[{n_var}].items()', 'thiele: inner loop over bonds[n].items() not found')
        m_var, b_var = [e.id for e in inner_l.target.elts]
        nb_names = {f'rings[{n_var}]'}
        if src(outer_l.iter) == 'rings.items()' and isinstance(outer_l.target, ast.Tuple) and len(outer_l.target.elts) == 2 and src(outer_l.target.elts[0]) == n_var:
            nb_names.add(src(outer_l.target.elts[1]))
        else:
            ck.require(src(outer_l.iter) == 'rings' and src(outer_l.target) == n_var, 'thiele: outer loop over the ring atoms not found')
        cs = {src(c) for c in conds}
        ok_ = len(cs) == 2 and f'{b_var} == 2' in cs and any(f'{m_var} not in {nb}' in cs for nb in nb_names)
        ck.decide(ok_, R, 'exocyclic-double-bond', sorted(cs),
                  f'thiele marks a ring atom as double-bonded outside the ring under `{" and ".join(sorted(cs))}`; required `{b_var} == 2 and {m_var} not in rings[{n_var}]` (bond-level test)',
                  file=f.file, line=adds[0].lineno, func=f.qualname, construct=src(parents_[adds[0]])[:160])
        ck.floor(R, 1)
        return
    comp = asg[0].value
    outer = comp.generators[0]
    ck.require(isinstance(outer.target, ast.Name) and src(outer.iter) == 'rings', 'thiele: double_bonded does not iterate rings')
    n_var = outer.target.id
    inner = [g for x in ast.walk(comp) if isinstance(x, ast.GeneratorExp) for g in x.generators]
    ck.require(len(inner) == 1 and isinstance(inner[0].target, ast.Tuple) and len(inner[0].target.elts) == 2, 'thiele: inner generator over bonds[n].items() not found')
    m_var, b_var = [e.id for e in inner[0].target.elts]
    ck.require(src(inner[0].iter) == f'bonds[{n_var}].items()', 'thiele: inner generator does not iterate the bonds of the ring atom')
    anyc = [x for x in ast.walk(comp) if isinstance(x, ast.GeneratorExp)][0]
    cs = {src(c) for c in conjuncts(anyc.elt)} | {src(c) for i in inner[0].ifs for c in conjuncts(i)}
    want = {f'{m_var} not in rings[{n_var}]', f'{b_var} == 2'}
    ck.decide(cs == want, R, 'exocyclic-double-bond', sorted(cs),
              f'thiele marks a ring atom as double-bonded outside the ring under `{" and ".join(sorted(cs))}`; required `{" and ".join(sorted(want))}` (bond-level test)',
              file=f.file, line=asg[0].lineno, func=f.qualname, construct=src(asg[0])[:160])
    ck.floor(R, 1)


def rule_hybridization_table(ck, repo, R):
    """the hybridisation label of calc_labels, decided by abstract execution of its per-bond ladder over every sequence of up to three bond orders"""
    from itertools import product
    from .r_readers import _tv, _Unk
    ck.rule(R, 'calc_labels derives the hybridisation mark from the bond orders of the atom: aromatic (4) if any aromatic bond, else sp (3) with a triple bond or two '
               'double bonds, sp2 (2) with one double bond, sp3 (1) otherwise; coordinate bonds (8) do not count. Decided by executing the per-bond statements '
               'abstractly for every sequence of up to three orders from {1, 2, 3, 4, 8} (155 sequences), so any re-nesting of the ladder is accepted')
    f = repo.func('chython.containers.molecule:MoleculeContainer.calc_labels')
    ck.require(f is not None, 'calc_labels not found')
    outer = [l for l in ast.walk(f.node) if isinstance(l, ast.For) and 'self._bonds.items()' in src(l.iter)]
    ck.require(len(outer) == 1, 'calc_labels: outer loop over the adjacency not found')
    inner = [l for l in outer[0].body if isinstance(l, ast.For)]
    ck.require(len(inner) == 1 and isinstance(inner[0].target, ast.Tuple) and len(inner[0].target.elts) == 2, 'calc_labels: inner loop over the bonds of the atom not found')
    bvar = src(inner[0].target.elts[1])
    init = [s for s in outer[0].body if isinstance(s, ast.Assign) and src(s.targets[0]) == 'hybridization' and isinstance(s.value, ast.Constant)]
    ck.require(len(init) == 1, 'calc_labels: initial hybridization not found')

    class _Cont(Exception):
        pass

    def touches(st):
        return any(isinstance(n, ast.Name) and n.id == 'hybridization' and isinstance(n.ctx, ast.Store) for n in ast.walk(st)) or \
            any(isinstance(n, ast.Continue) for n in ast.walk(st))

    def run(stmts, env):
        for st in stmts:
            if isinstance(st, ast.If):
                try:
                    t = _tv(st.test, env)
                except _Unk:
                    if touches(st):
                        raise
                    continue
                run(st.body if t else st.orelse, env)
            elif isinstance(st, ast.Assign) and src(st.targets[0]) == 'hybridization':
                if not isinstance(st.value, ast.Constant):
                    raise _Unk(src(st))
                env['hybridization'] = st.value.value
            elif isinstance(st, ast.Continue):
                raise _Cont()
            elif touches(st):
                raise _Unk(src(st)[:60])
    n = 0
    for ln in range(0, 4):
        for seq in product((1, 2, 3, 4, 8), repeat=ln):
            env = {'hybridization': init[0].value.value}
            try:
                for o in seq:
                    env[bvar] = o
                    try:
                        run(inner[0].body, env)
                    except _Cont:
                        pass
            except _Unk as e:
                raise AnalysisError(f'calc_labels: hybridisation ladder not understood for bond orders {seq}: {e}')
            real = [o for o in seq if o != 8]
            want = 4 if 4 in real else 3 if 3 in real or real.count(2) >= 2 else 2 if 2 in real else 1
            n += 1
            if env['hybridization'] != want:
                ck.bad(R, f'orders={seq}', f'calc_labels labels an atom with bond orders {seq} as hybridisation {env["hybridization"]}; expected {want} '
                                           f'(1 sp3, 2 sp2, 3 sp, 4 aromatic): queries with the z primitive / hybridization constraint and the matcher bits use this label',
                       file=f.file, line=inner[0].lineno, func=f.qualname)
    ck.ok(R, 'sequences', f'{n} bond-order sequences give the documented label')
    ck.count(f'{R}: sequences', n)


def rule_simple_cycle_guard(ck, repo, R):
    """C06: every ring candidate the SSSR search emits is a simple cycle. _c_set glues two shortest paths into a closed walk; where the paths share
    an inner atom the walk visits it twice and is not a ring. Each emission site must therefore be control dependent on the test
    len(walk) == len(set(walk)) over the very walk it emits (sibling sites of one generator agree)."""
    from .astutil import reach_conditions, expand_locals, enclosing_map, single_defs
    ck.rule(R, 'every `yield _canonic_ring(w)` of rings._c_set is reached only under len(w) == len(set(w)) for the same walk w (after expanding local names): '
               'a walk through a shared inner atom is not emitted as a ring')
    m = repo.module('chython.algorithms.rings')
    f = m.functions.get('_c_set')
    ck.require(f is not None, 'rings._c_set vanished')
    pm = enclosing_map(f.node)
    sites = [n for n in ast.walk(f.node) if isinstance(n, (ast.Yield, ast.YieldFrom)) and n.value is not None]
    sites += [n for n in ast.walk(f.node) if isinstance(n, ast.Call) and isinstance(n.func, ast.Attribute) and n.func.attr in ('append', 'add')
              and any(isinstance(c, ast.Call) and src(c.func) == '_canonic_ring' for a in n.args for c in ast.walk(a))]

    def walk_of(site):
        for c in ast.walk(site):
            if isinstance(c, ast.Call) and src(c.func) == '_canonic_ring' and len(c.args) == 1:
                return c.args[0]
        return None
    n = 0
    for site in sites:
        w = walk_of(site)
        if w is None:
            continue
        n += 1
        # local definitions valid at the site: names assigned once in the function, or once in the enclosing loop body (c = c1 + c2[-2:0:-1])
        defs = {}
        for a in ast.walk(f.node):
            if isinstance(a, ast.Assign) and len(a.targets) == 1 and isinstance(a.targets[0], ast.Name):
                defs.setdefault(a.targets[0].id, []).append(a)

        def expand(e):
            class T(ast.NodeTransformer):
                def visit_Name(self, node):
                    if isinstance(node.ctx, ast.Load) and node.id in defs:
                        # the definition that dominates the site: the nearest one in an enclosing block, before the site
                        best = None
                        for a in defs[node.id]:
                            blk_owner = pm.get(a)
                            p_ = site
                            while p_ is not None and p_ is not blk_owner:
                                p_ = pm.get(p_)
                            if p_ is blk_owner and a.lineno <= site.lineno:
                                best = a if best is None or a.lineno > best.lineno else best
                        if best is not None and not any(isinstance(x, ast.Name) and x.id == node.id for x in ast.walk(best.value)):
                            import copy as _c
                            return self.visit(_c.deepcopy(best.value))
                    return node
            import copy as _c
            return T().visit(_c.deepcopy(e))
        target = src(expand(w))
        ok = False
        for c in reach_conditions(site, f.node, pm):
            if isinstance(c, ast.Compare) and len(c.ops) == 1 and isinstance(c.ops[0], ast.Eq):
                a, b = c.left, c.comparators[0]
                for x, y in ((a, b), (b, a)):
                    if isinstance(x, ast.Call) and src(x.func) == 'len' and isinstance(y, ast.Call) and src(y.func) == 'len' and len(x.args) == 1 and len(y.args) == 1 \
                            and isinstance(y.args[0], ast.Call) and src(y.args[0].func) in ('set', 'frozenset') and len(y.args[0].args) == 1:
                        if src(expand(x.args[0])) == target and src(expand(y.args[0].args[0])) == target:
                            ok = True
        ck.decide(ok, R, f'site:{target}', None,
                  f'_c_set emits the closed walk `{target}` as a ring without the simple-cycle test len(w) == len(set(w)): when the two paths share an inner atom the "ring" '
                  f'repeats that atom (its sibling emission sites keep the test)', file=m.relpath, line=site.lineno, func='_c_set', construct=src(site)[:120])
    ck.count(f'{R}: emission sites', n)
    ck.require(n >= 2, f'_c_set: {n} emission sites found, 2 confirmed by hand')


def rule_ring_mark_is_bool(ck, repo, R):
    """C08/C06: Bond.in_ring of a molecule bond is True or False (None means "unspecified" and exists on the query side only: QueryBond.__eq__ compares
    `self.in_ring != other.in_ring`). The expression calc_labels assigns must therefore be boolean on every input: every operand of its `and` chain that can end the
    chain is False-or-truthy-set, never None"""
    ck.rule(R, 'calc_labels assigns bond._in_ring a value that is always a bool: in `a and b and c` every non-final operand is coerced with `or False` (or is a comparison), '
               'the final operand is a comparison / negation; an operand like `d.get(k)` can be None and would be stored as the mark')
    from .astutil import single_defs
    f = repo.func('chython.containers.molecule:MoleculeContainer.calc_labels')
    defs = single_defs(f.node)
    n = 0

    def boolish(e):
        return isinstance(e, (ast.Compare,)) or (isinstance(e, ast.UnaryOp) and isinstance(e.op, ast.Not)) or (isinstance(e, ast.Constant) and isinstance(e.value, bool))

    def never_none(e, depth=0):
        if boolish(e):
            return True
        if isinstance(e, ast.NamedExpr):
            return never_none(e.value, depth)
        if isinstance(e, ast.BoolOp) and isinstance(e.op, ast.Or):
            return isinstance(e.values[-1], ast.Constant) and e.values[-1].value is False
        if isinstance(e, ast.Name) and depth < 3 and e.id in defs:
            return never_none(defs[e.id], depth + 1)
        if isinstance(e, ast.Name) and depth < 3:
            # assigned in the loop (anr = atoms_rings.get(n) or False)
            vals = [a.value for a in ast.walk(f.node) if isinstance(a, ast.Assign) and any(isinstance(t, ast.Name) and t.id == e.id for t in a.targets)]
            return bool(vals) and all(never_none(v, depth + 1) for v in vals)
        return False
    for a in ast.walk(f.node):
        if isinstance(a, ast.Assign) and src(a.targets[0]) == 'bond._in_ring':
            n += 1
            v = a.value
            if isinstance(v, ast.BoolOp) and isinstance(v.op, ast.And):
                bad = [src(x) for x in v.values[:-1] if not never_none(x)] + ([src(v.values[-1])] if not boolish(v.values[-1]) else [])
            else:
                bad = [] if boolish(v) or (isinstance(v, ast.Call) and src(v.func) == 'bool') else [src(v)]
            ck.decide(not bad, R, f'in_ring-bool@{n}', None,
                      f'calc_labels stores `{src(v)[:100]}` as bond._in_ring: the operand(s) {bad} can be None, and None is then the ring mark of the bond; QueryBond.__eq__ '
                      f'compares marks with != and treats None as "not equal to False": `!@` no longer matches such bonds', file=f.file, line=a.lineno, func=f.qualname, construct=src(a)[:120])
    ck.require(n >= 1, 'calc_labels: assignment of bond._in_ring not found')


def rule_pid_replace_or_extend(ck, repo, R):
    """C06: _make_pid keeps, per atom pair, the shortest paths (pid1) and the paths one longer (pid2) relative to the CURRENT shortest distance. In an arm that lowers
    that distance both tables refer to a new reference length and must be replaced; in an arm that keeps it they may only be extended. Mixing the two leaves paths of a
    third length in a table that _c_set trusts to hold exactly "shortest + 1" paths"""
    from .astutil import if_chain
    ck.rule(R, 'rings._make_pid: in every arm of the distance ladder that records a new (smaller) distance, pid1[i][j] and pid2[i][j] are assigned (replaced); in every arm that '
               'keeps the distance they are only extended with .update(); never the other way round')
    m = repo.module('chython.algorithms.rings')
    f = m.functions.get('_make_pid')
    ck.require(f is not None, 'rings._make_pid vanished')
    ladders = [n for n in ast.walk(f.node) if isinstance(n, ast.If) and len(if_chain(n)) >= 4 and 'ikj' in src(n.test)]
    ck.require(len(ladders) >= 1, '_make_pid: distance ladder not found')
    lad = ladders[0]
    n = 0
    for test, blk in if_chain(lad):
        nd = [src(a.value) for s_ in blk for a in ast.walk(s_) if isinstance(a, ast.Assign) and src(a.targets[0]).endswith('[j]') and src(a.targets[0]).startswith('nd')]
        if len(nd) != 1:
            raise AnalysisError(f'_make_pid: arm `{src(test) if test is not None else "else"}` does not record exactly one distance')
        lowers = nd[0] != 'ij'
        writes = []
        for s_ in blk:
            for a in ast.walk(s_):
                if isinstance(a, ast.Assign) and re_pid(src(a.targets[0])):
                    writes.append((src(a.targets[0]), 'replace'))
                elif isinstance(a, ast.Call) and isinstance(a.func, ast.Attribute) and a.func.attr == 'update' and re_pid(src(a.func.value)):
                    writes.append((src(a.func.value), 'extend'))
        for tgt, how in writes:
            n += 1
            ck.decide((how == 'replace') == lowers, R, f'{src(test) if test is not None else "else"}:{tgt}', how,
                      f'_make_pid: in the arm `{src(test) if test is not None else "else"}` (distance {"lowered to " + nd[0] if lowers else "kept"}) `{tgt}` is {"replaced" if how == "replace" else "extended"}: '
                      + ('paths collected for the old, longer distance stay in a table that is read as "shortest + 1"' if lowers else 'paths of the current distance are thrown away'),
                      file=m.relpath, line=lad.lineno, func='_make_pid', construct=tgt)
    ck.require(n >= 6, f'_make_pid: {n} table writes found in the ladder, 6 confirmed by hand')


def re_pid(t):
    import re as _re
    return _re.fullmatch(r'pid[12]\[i\]\[j\]', t) is not None
