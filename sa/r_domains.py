# -*- coding: utf-8 -*-
"""Domain-typing rules (sa/domains.py) instantiated for the functions where index domains meet."""
import ast
from .core import AnalysisError
from .astutil import src, strip_doc
from .domains import Walker, Dom, Tup, Coll, Map, Mismatch, unify


def Q():
    return Dom('Q')


def M():
    return Dom('M')


def SYM():
    return Dom('SYM')


def Z():
    return Dom('Z')


def ORD():
    return Dom('ORD')


def env_tuple():
    return Tup(ORD(), Z())


ATTRS = {
    'atomic_number': Z, 'atomic_symbol': SYM, '__name__': SYM, 'order': ORD,
    '_atoms': lambda: Map(M(), Dom('ATOM')), '_bonds': lambda: Map(M(), Map(M(), Dom('BOND'))),
    '_valences_exceptions': lambda: Coll(Tup(None, None, None, Coll(Tup(ORD(), SYM())))),
}
RETURNS = {'get_mapping': lambda: Coll(Map(Q(), M()))}


class SeededWalker(Walker):
    def __init__(self, func, env, report, frozen=()):
        super().__init__(func, env, ATTRS, report)
        self.frozen = set(frozen)

    def bind(self, target, t):
        if isinstance(target, ast.Name) and target.id in self.frozen:
            return
        super().bind(target, t)

    def call(self, n):
        f = n.func
        if isinstance(f, ast.Attribute) and f.attr in RETURNS:
            for a in n.args:
                self.ty(a)
            return RETURNS[f.attr]()
        return super().call(n)


def rules_type_groups():
    return Coll(Tup(Dom('PATTERN'), Map(Q(), Tup(None, None)), Coll(Tup(Q(), Q(), ORD())), Coll(Q()), None))


SITES = [
    # (function fq, seed env factory, frozen names, expectations after the walk: name -> type)
    ('chython.algorithms.standardize.molecule:Standardize.__standardize',
     lambda: {'rules': rules_type_groups()}, (), {'seen': lambda: Coll(M()), 'hs': lambda: Coll(M())}),
    ('chython.algorithms.aromatics.kekule:Kekule.__fix_rings',
     lambda: {'rules': Coll(Tup(Dom('PATTERN'), Map(Q(), None), Coll(Tup(Q(), Q(), ORD())), None))}, ('rules',), {'seen': lambda: Coll(M())}),
    ('chython.periodictable.base.element:Element._compiled_valence_rules',
     lambda: {'elements_classes': Map(SYM(), Z())}, ('elements_classes',), {'explicit_set': lambda: Coll(env_tuple()), 'explicit_dict': lambda: Map(env_tuple(), None)}),
    ('chython.periodictable.base.element:Element._compiled_saturation_rules',
     lambda: {'elements_classes': Map(SYM(), Z())}, ('elements_classes',), {'explicit_dict': lambda: Map(env_tuple(), None)}),
    ('chython.containers.molecule:MoleculeContainer.calc_implicit',
     lambda: {'rules': Coll(Tup(Coll(env_tuple()), Map(env_tuple(), None), None))}, ('rules',), {'explicit_dict': lambda: Map(env_tuple(), None)}),
    ('chython.containers.molecule:MoleculeContainer.check_implicit',
     lambda: {'rules': Coll(Tup(Coll(env_tuple()), Map(env_tuple(), None), None))}, ('rules',), {'explicit_dict': lambda: Map(env_tuple(), None)}),
    ('chython.algorithms.standardize.molecule:Standardize.implicify_hydrogens',
     lambda: {'rules': Coll(Tup(Coll(env_tuple()), Map(env_tuple(), None), None))}, ('rules',), {'explicit_dict': lambda: Map(env_tuple(), None)}),
    ('chython.algorithms.isomorphism:_get_mapping',
     lambda: {'linear_query': Coll(Tup(Q(), Q(), Dom('QATOM'), Dom('QBOND'))), 'query_closures': Map(Q(), Coll(Tup(Q(), Dom('QBOND')))),
              'o_atoms': Map(M(), Dom('ATOM')), 'o_bonds': Map(M(), Map(M(), Dom('BOND'))), 'scope': Coll(M())},
     ('linear_query', 'query_closures', 'o_atoms', 'o_bonds', 'scope'), {'mapping': lambda: Map(Q(), M()), 'reversed_mapping': lambda: Map(M(), Q())}),
]


def rule_domains(ck, repo, R, only=None):
    ck.rule(R, 'index-domain typing: query-atom numbers vs molecule-atom numbers, element symbols vs atomic numbers and (order, atomic number) environment '
               'keys never meet in a set operation, membership test, dictionary key, comparison or count/index; inferred from seeded input types of '
               'each function (under-approximate: unknown constructs are ignored, only two known different domains are reported)')
    n = 0
    for fq, seed, frozen, expect in SITES:
        if only is not None and not any(fq.endswith(o) for o in only):
            continue
        f = repo.func(fq)
        found = []

        def report(node, msg, f=f):
            found.append((node, msg))
        w = SeededWalker(f, seed(), report, frozen)
        # parameters keep their seeds
        w.walk(strip_doc(f.node.body))
        seen_msgs = set()
        for node, msg in found:
            key = f'{f.qualname}:{" ".join(src(node).split())[:80]}'
            if key in seen_msgs:
                continue
            seen_msgs.add(key)
            ck.bad(R, key, f'{f.qualname}: {msg} (values of one index domain are used where the other is expected)', file=f.file, line=getattr(node, 'lineno', f.lineno),
                   func=f.qualname, construct=src(node)[:120])
        for name, tf in expect.items():
            got = w.env.get(name)
            n += 1
            ok = True
            if got is None:
                # the local may have been renamed: any inferred variable of the expected type keeps the rule non-vacuous
                alt = None
                for k, v in w.env.items():
                    try:
                        unify(v, tf())
                        if repr(v) == repr(tf()):
                            alt = k
                            break
                    except Mismatch:
                        continue
                if alt is None:
                    raise AnalysisError(f'{fq}: variable `{name}` expected by the domain rule is no longer inferable')
                ck.ok(R, f'{f.qualname}:{name}', f'(as `{alt}`) {w.env[alt]!r}', nontrivial=False)
                continue
            try:
                unify(got, tf())
            except Mismatch as m:
                ok = False
                ck.bad(R, f'{f.qualname}:{name}', f'{f.qualname}: `{name}` holds {got!r}; the code that consumes it expects {tf()!r}', file=f.file, line=f.lineno, func=f.qualname)
            if ok and not any(k.startswith(f'{f.qualname}:') for k in seen_msgs):
                ck.ok(R, f'{f.qualname}:{name}', repr(got))
            elif ok:
                ck.ok(R, f'{f.qualname}:{name}', repr(got), nontrivial=False)
    ck.count('domain-typed functions', len(SITES))
    return n
