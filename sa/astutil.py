# -*- coding: utf-8 -*-
"""small AST helpers shared by the rules"""
import ast
import copy
from .core import AnalysisError


def src(node):
    return ast.unparse(node) if node is not None else ''


def if_chain(node):
    """flatten if/elif/else into [(test or None, body)]"""
    out = []
    while True:
        out.append((node.test, node.body))
        if len(node.orelse) == 1 and isinstance(node.orelse[0], ast.If):
            node = node.orelse[0]
            continue
        if node.orelse:
            out.append((None, node.orelse))
        return out


def strip_doc(body):
    if body and isinstance(body[0], ast.Expr) and isinstance(body[0].value, ast.Constant) and \
            isinstance(body[0].value.value, str):
        return body[1:]
    return body


def disjuncts(test):
    if isinstance(test, ast.BoolOp) and isinstance(test.op, ast.Or):
        out = []
        for v in test.values:
            out.extend(disjuncts(v))
        return out
    return [test]


def conjuncts(test):
    if isinstance(test, ast.BoolOp) and isinstance(test.op, ast.And):
        out = []
        for v in test.values:
            out.extend(conjuncts(v))
        return out
    return [test]


class Renamer(ast.NodeTransformer):
    def __init__(self, mapping):
        self.mapping = mapping

    def visit_Name(self, node):
        if node.id in self.mapping:
            return ast.copy_location(ast.Name(id=self.mapping[node.id], ctx=node.ctx), node)
        return node

    def visit_arg(self, node):
        if node.arg in self.mapping:
            node = copy.copy(node)
            node.arg = self.mapping[node.arg]
        return node


def rename(node, mapping):
    return Renamer(mapping).visit(copy.deepcopy(node))


def alpha_normal(node):
    """rename every local Name (in order of first appearance) to v0, v1, ...; attributes and constants kept"""
    names = {}

    class V(ast.NodeVisitor):
        def visit_Name(self, n):
            if n.id not in names and n.id not in ('self', 'True', 'False', 'None'):
                names[n.id] = f'v{len(names)}'

        def visit_arg(self, n):
            if n.arg not in names and n.arg != 'self':
                names[n.arg] = f'v{len(names)}'
    V().visit(node)
    return src(rename(node, names)), names


def find_funcs_calls(node, name):
    """Call nodes whose callee's last component is `name`"""
    for n in ast.walk(node):
        if isinstance(n, ast.Call):
            f = n.func
            if isinstance(f, ast.Attribute) and f.attr == name or isinstance(f, ast.Name) and f.id == name:
                yield n


def is_self_attr(node, attr=None):
    return isinstance(node, ast.Attribute) and isinstance(node.value, ast.Name) and node.value.id == 'self' and \
        (attr is None or node.attr == attr)


def call_name(call):
    f = call.func
    if isinstance(f, ast.Attribute):
        return f.attr
    if isinstance(f, ast.Name):
        return f.id
    return None


def enclosing_map(root):
    """child -> parent map"""
    parents = {}
    for p in ast.walk(root):
        for c in ast.iter_child_nodes(p):
            parents[c] = p
    return parents


def terminates(body):
    """True if a statement list always leaves by return/raise/continue/break"""
    if not body:
        return False
    last = body[-1]
    if isinstance(last, (ast.Return, ast.Raise, ast.Continue, ast.Break)):
        return True
    if isinstance(last, ast.If):
        return bool(last.orelse) and terminates(last.body) and terminates(last.orelse)
    if isinstance(last, ast.Try):
        if last.finalbody and terminates(last.finalbody):
            return True
        return terminates(last.body + last.orelse) and all(terminates(h.body) for h in last.handlers)
    if isinstance(last, ast.With):
        return terminates(last.body)
    return False
