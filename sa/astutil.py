# -*- coding: utf-8 -*-
"""small AST helpers shared by the rules"""
import ast
import copy
from .core import AnalysisError


class Src(str):
    """
    source text of a node that remembers the node: `"fragment" in src(node)` first tries the plain substring test and, when that fails, a
    structural match of the fragment against the subtrees of the node modulo a consistent renaming of names that NO LONGER OCCUR in the node
    (a renamed local variable must not look like a removed construct). Names that still occur must match literally, so on an unchanged
    function the test is exactly the substring test.
    """
    node = None

    def __contains__(self, item):
        if str.__contains__(self, item):
            return True
        if self.node is None or not isinstance(item, str):
            return False
        if not isinstance(self.node, (ast.FunctionDef, ast.AsyncFunctionDef, ast.ClassDef, ast.Module)):
            return False  # classifiers over small nodes keep the plain substring meaning
        try:
            return contains_mod_rename(self.node, item)
        except RecursionError:
            return False


def src(node):
    if node is None:
        return ''
    s = Src(ast.unparse(node))
    s.node = node
    return s


def _parse_fragment(text):
    """-> list of pattern nodes (an expression, or statements; headers like `if x` / `for a in b` become header-only patterns)"""
    text = text.strip()
    try:
        m = ast.parse(text)
        if len(m.body) == 1 and isinstance(m.body[0], ast.Expr):
            return 'expr', m.body[0].value
        return 'stmts', m.body
    except SyntaxError:
        pass
    for kw in ('if ', 'elif ', 'while ', 'for '):
        if text.startswith(kw):
            t = text[2:] if kw == 'elif ' else text
            try:
                m = ast.parse(t.rstrip(':') + ':\n    pass')
                return 'header', m.body[0]
            except SyntaxError:
                return None, None
    return None, None


def _unify(p, a, env, present):
    if type(p) is not type(a):
        return False
    if isinstance(p, ast.Name):
        if p.id == a.id:
            return env.setdefault(p.id, a.id) == a.id
        if p.id in present:
            return False  # the pattern name still exists in the function: it must match literally
        if a.id in env.values() and env.get(p.id) != a.id:
            return False
        return env.setdefault(p.id, a.id) == a.id
    if isinstance(p, ast.arg):
        return _unify(ast.Name(id=p.arg, ctx=ast.Load()), ast.Name(id=a.arg, ctx=ast.Load()), env, present)
    for f in p._fields:
        if f in ('ctx', 'type_comment', 'lineno', 'col_offset', 'end_lineno', 'end_col_offset', 'kind'):
            continue
        x, y = getattr(p, f, None), getattr(a, f, None)
        if isinstance(x, list):
            if not isinstance(y, list) or len(x) != len(y):
                return False
            for i, j in zip(x, y):
                if isinstance(i, ast.AST):
                    if not _unify(i, j, env, present):
                        return False
                elif i != j:
                    return False
        elif isinstance(x, ast.AST):
            if not isinstance(y, ast.AST) or not _unify(x, y, env, present):
                return False
        elif x != y:
            return False
    return True


def contains_mod_rename(node, text):
    kind, pat = _parse_fragment(text)
    if kind is None:
        return False
    present = {n.id for n in ast.walk(node) if isinstance(n, ast.Name)} | {n.arg for n in ast.walk(node) if isinstance(n, ast.arg)}
    pnodes = [n for p_ in (pat if isinstance(pat, list) else [pat]) for n in ast.walk(p_) if not isinstance(n, (ast.Load, ast.Store, ast.Del, ast.Pass))]
    anchors = [n for n in pnodes if isinstance(n, (ast.Attribute, ast.Constant, ast.keyword)) or (isinstance(n, ast.Name) and n.id in present)]
    if kind == 'header':
        if len(pnodes) < 4 or len(anchors) < 1:
            return False
    elif len(pnodes) < 6 or len(anchors) < 2:
        return False  # too small to be recognised modulo renaming without matching unrelated code
    if kind == 'expr':
        for c in ast.walk(node):
            if type(c) is type(pat) and _unify(pat, c, {}, present):
                return True
        return False
    if kind == 'header':
        for c in ast.walk(node):
            if type(c) is type(pat):
                env = {}
                ok = _unify(pat.test, c.test, env, present) if isinstance(pat, (ast.If, ast.While)) else \
                    (_unify(pat.target, c.target, env, present) and _unify(pat.iter, c.iter, env, present))
                if ok:
                    return True
        if isinstance(pat, ast.If):  # `if <test>` also names the filter of a comprehension / a conditional expression
            for c in ast.walk(node):
                tests = list(c.ifs) if isinstance(c, ast.comprehension) else [c.test] if isinstance(c, ast.IfExp) else []
                for t in tests:
                    if _unify(pat.test, t, {}, present):
                        return True
        return False
    # statement sequence: must occur as consecutive statements of some block
    for c in ast.walk(node):
        for fld in ('body', 'orelse', 'finalbody'):
            blk = getattr(c, fld, None)
            if not isinstance(blk, list) or len(blk) < len(pat):
                continue
            for i in range(len(blk) - len(pat) + 1):
                env = {}
                if all(isinstance(blk[i + k], ast.AST) and _unify(pat[k], blk[i + k], env, present) for k in range(len(pat))):
                    return True
    return False


def if_chain(node):
    """flatten if/elif/else into [(test or None, body)]"""
    out = []
    while True:
        out.append((node.test, node.body))
        if len(node.orelse) == 1 and isinstance(node.orelse[0], ast.If):
            node = node.orelse[0]
            continue
        if node.orelse:
            out.append((None, node.orelse))
        return out


def as_ladder(body):
    """a statement list in which `if T: ...<terminates>` is followed by more statements, rewritten so that those statements are the else
    branch (guard clauses and if/elif/else ladders become one shape); the input is not modified"""
    body = list(body)
    for i, st in enumerate(body):
        if isinstance(st, ast.If) and i + 1 < len(body):
            arms = if_chain(st)
            if arms[-1][0] is not None and all(terminates(b) for _, b in arms):
                rest = as_ladder(body[i + 1:])

                def attach(node):
                    c = copy.copy(node)
                    if len(c.orelse) == 1 and isinstance(c.orelse[0], ast.If):
                        c.orelse = [attach(c.orelse[0])]
                    else:
                        c.orelse = rest
                    return c
                return body[:i] + [attach(st)]
    return body


def strip_doc(body):
    if body and isinstance(body[0], ast.Expr) and isinstance(body[0].value, ast.Constant) and \
            isinstance(body[0].value.value, str):
        return body[1:]
    return body


def disjuncts(test):
    if isinstance(test, ast.BoolOp) and isinstance(test.op, ast.Or):
        out = []
        for v in test.values:
            out.extend(disjuncts(v))
        return out
    return [test]


def conjuncts(test):
    if isinstance(test, ast.BoolOp) and isinstance(test.op, ast.And):
        out = []
        for v in test.values:
            out.extend(conjuncts(v))
        return out
    return [test]


_FLIP = {ast.Eq: ast.NotEq, ast.NotEq: ast.Eq, ast.In: ast.NotIn, ast.NotIn: ast.In, ast.Is: ast.IsNot, ast.IsNot: ast.Is,
         ast.Lt: ast.GtE, ast.GtE: ast.Lt, ast.Gt: ast.LtE, ast.LtE: ast.Gt}


def negated_conjuncts(test):
    """conjuncts of `not test`: De Morgan over `or`, double negation, flipped single comparisons; a conjunction stays one negated term"""
    if isinstance(test, ast.BoolOp) and isinstance(test.op, ast.Or):
        out = []
        for v in test.values:
            out.extend(negated_conjuncts(v))
        return out
    if isinstance(test, ast.UnaryOp) and isinstance(test.op, ast.Not):
        return conjuncts(test.operand)
    if isinstance(test, ast.Compare) and len(test.ops) == 1:
        return [ast.copy_location(ast.Compare(left=test.left, ops=[_FLIP[type(test.ops[0])]()], comparators=test.comparators), test)]
    return [ast.copy_location(ast.UnaryOp(op=ast.Not(), operand=test), test)]


def positive_conjuncts(test):
    """conjuncts of `test` with `not (a or b)` / `not not a` / `not a == b` opened up"""
    out = []
    for c in conjuncts(test):
        if isinstance(c, ast.UnaryOp) and isinstance(c.op, ast.Not):
            out.extend(negated_conjuncts(c.operand))
        else:
            out.append(c)
    return out


def reach_conditions(node, fn, parents=None):
    """conditions that hold whenever `node` is reached inside fn, from control dependence: tests of the enclosing ifs (negated in an else
    branch) and the negated tests of earlier sibling `if T: continue / break / return / raise` statements in every enclosing block"""
    if parents is None:
        parents = enclosing_map(fn)
    out = []
    child, p = node, parents.get(node)
    while p is not None:
        for field in ('body', 'orelse', 'finalbody'):
            blk = getattr(p, field, None)
            if isinstance(blk, list) and child in blk:
                if isinstance(p, ast.If):
                    out.extend(positive_conjuncts(p.test) if field == 'body' else negated_conjuncts(p.test))
                for st in blk[:blk.index(child)]:
                    if isinstance(st, ast.If) and not st.orelse and st.body and isinstance(st.body[-1], (ast.Continue, ast.Break, ast.Return, ast.Raise)):
                        out.extend(negated_conjuncts(st.test))
                    elif isinstance(st, ast.If) and st.orelse and isinstance(st.orelse[-1], (ast.Continue, ast.Break, ast.Return, ast.Raise)) \
                            and not (st.body and isinstance(st.body[-1], (ast.Continue, ast.Break, ast.Return, ast.Raise))):
                        out.extend(positive_conjuncts(st.test))
                break
        if p is fn:
            break
        child, p = p, parents.get(p)
    return out


class Renamer(ast.NodeTransformer):
    def __init__(self, mapping):
        self.mapping = mapping

    def visit_Name(self, node):
        if node.id in self.mapping:
            return ast.copy_location(ast.Name(id=self.mapping[node.id], ctx=node.ctx), node)
        return node

    def visit_arg(self, node):
        if node.arg in self.mapping:
            node = copy.copy(node)
            node.arg = self.mapping[node.arg]
        return node


def rename(node, mapping):
    return Renamer(mapping).visit(copy.deepcopy(node))


def alpha_normal(node):
    """rename every local Name (in order of first appearance) to v0, v1, ...; attributes and constants kept"""
    names = {}

    class V(ast.NodeVisitor):
        def visit_Name(self, n):
            if n.id not in names and n.id not in ('self', 'True', 'False', 'None'):
                names[n.id] = f'v{len(names)}'

        def visit_arg(self, n):
            if n.arg not in names and n.arg != 'self':
                names[n.arg] = f'v{len(names)}'
    V().visit(node)
    return src(rename(node, names)), names


def find_funcs_calls(node, name):
    """Call nodes whose callee's last component is `name`"""
    for n in ast.walk(node):
        if isinstance(n, ast.Call):
            f = n.func
            if isinstance(f, ast.Attribute) and f.attr == name or isinstance(f, ast.Name) and f.id == name:
                yield n


def is_self_attr(node, attr=None):
    return isinstance(node, ast.Attribute) and isinstance(node.value, ast.Name) and node.value.id == 'self' and \
        (attr is None or node.attr == attr)


def call_name(call):
    f = call.func
    if isinstance(f, ast.Attribute):
        return f.attr
    if isinstance(f, ast.Name):
        return f.id
    return None


def enclosing_map(root):
    """child -> parent map"""
    parents = {}
    for p in ast.walk(root):
        for c in ast.iter_child_nodes(p):
            parents[c] = p
    return parents


def terminates(body):
    """True if a statement list always leaves by return/raise/continue/break"""
    if not body:
        return False
    last = body[-1]
    if isinstance(last, (ast.Return, ast.Raise, ast.Continue, ast.Break)):
        return True
    if isinstance(last, ast.If):
        return bool(last.orelse) and terminates(last.body) and terminates(last.orelse)
    if isinstance(last, ast.Try):
        if last.finalbody and terminates(last.finalbody):
            return True
        return terminates(last.body + last.orelse) and all(terminates(h.body) for h in last.handlers)
    if isinstance(last, ast.With):
        return terminates(last.body)
    return False


def single_defs(fn):
    """local names bound exactly once in fn by a plain `name = expr` (not a loop target, parameter, augmented or tuple assignment)"""
    counts, vals = {}, {}
    for n in ast.walk(fn):
        if isinstance(n, ast.Assign):
            for t in n.targets:
                for x in ast.walk(t):
                    if isinstance(x, ast.Name) and isinstance(x.ctx, ast.Store):  # `row[k] = v` stores into the object, it does not rebind `row`
                        counts[x.id] = counts.get(x.id, 0) + 1
            if len(n.targets) == 1 and isinstance(n.targets[0], ast.Name):
                vals[n.targets[0].id] = n.value
            elif len(n.targets) == 1 and isinstance(n.targets[0], ast.Tuple) and isinstance(n.value, ast.Tuple) \
                    and len(n.targets[0].elts) == len(n.value.elts):
                for t, v in zip(n.targets[0].elts, n.value.elts):  # a, b = x, y
                    if isinstance(t, ast.Name) and not isinstance(v, ast.Starred):
                        vals[t.id] = v
        elif isinstance(n, (ast.AugAssign, ast.AnnAssign)):
            for x in ast.walk(n.target):
                if isinstance(x, ast.Name):
                    counts[x.id] = counts.get(x.id, 0) + 2
        elif isinstance(n, (ast.For, ast.comprehension)):
            for x in ast.walk(n.target):
                if isinstance(x, ast.Name):
                    counts[x.id] = counts.get(x.id, 0) + 2
        elif isinstance(n, ast.NamedExpr):
            counts[n.target.id] = counts.get(n.target.id, 0) + 2
        elif isinstance(n, ast.arg):
            counts[n.arg] = counts.get(n.arg, 0) + 2
        elif isinstance(n, (ast.With, ast.AsyncWith)):
            for it in n.items:
                if it.optional_vars is not None:
                    for x in ast.walk(it.optional_vars):
                        if isinstance(x, ast.Name):
                            counts[x.id] = counts.get(x.id, 0) + 2
    return {k: v for k, v in vals.items() if counts.get(k) == 1}


def expand_locals(expr, fn, depth=3, only=None):
    """copy of expr in which loads of single-definition locals of fn are replaced by their defining expressions (value semantics only:
    use for shape recognition, never to reason about aliasing)"""
    defs = single_defs(fn)

    class T(ast.NodeTransformer):
        def __init__(self, d):
            self.d = d

        def visit_Name(self, node):
            if isinstance(node.ctx, ast.Load) and node.id in defs and self.d > 0 and (only is None or node.id in only):
                return T(self.d - 1).visit(copy.deepcopy(defs[node.id]))
            return node
    return T(depth).visit(copy.deepcopy(expr))


def _subst(expr, mapping):
    class T(ast.NodeTransformer):
        def visit_Name(self, node):
            if isinstance(node.ctx, ast.Load) and node.id in mapping:
                return copy.deepcopy(mapping[node.id])
            return node
    return T().visit(copy.deepcopy(expr))


def helper_def(call, module_tree, scope=None):
    """the FunctionDef a call `name(...)` refers to: a nested def of `scope` or a module-level function of the same module"""
    if not (isinstance(call, ast.Call) and isinstance(call.func, ast.Name)):
        return None
    for root in ([scope] if scope is not None else []) + [module_tree]:
        body = root.body if hasattr(root, 'body') else []
        for n in (ast.walk(root) if root is scope else body):
            if isinstance(n, ast.FunctionDef) and n.name == call.func.id and n is not scope:
                return n
    return None


def helper_bindings(call, fdef):
    """parameter -> argument expression, None when the call shape is not a plain positional / keyword call"""
    params = [a.arg for a in fdef.args.posonlyargs + fdef.args.args]
    if fdef.args.vararg or fdef.args.kwarg or any(isinstance(a, ast.Starred) for a in call.args) or len(call.args) > len(params):
        return None
    m = dict(zip(params, call.args))
    for k in call.keywords:
        if k.arg is None:
            return None
        m[k.arg] = k.value
    defaults = fdef.args.defaults
    for p, d in zip(params[len(params) - len(defaults):], defaults):
        m.setdefault(p, d)
    for p, d in zip([a.arg for a in fdef.args.kwonlyargs], fdef.args.kw_defaults):
        if d is not None:
            m.setdefault(p, d)
    if any(p not in m for p in params):
        return None
    return m


def helper_returns(call, module_tree, scope=None):
    """every expression a same-module helper can return for this call, with parameters replaced by the call's arguments; None if not a helper call"""
    fdef = helper_def(call, module_tree, scope)
    if fdef is None:
        return None
    m = helper_bindings(call, fdef)
    if m is None:
        return None
    out = []
    for n in ast.walk(fdef):
        if isinstance(n, ast.Return):
            out.append(_subst(n.value, m) if n.value is not None else ast.Constant(value=None))
    return out


def attrs_read_of(fn, name, module_tree, depth=2):
    """attribute names read on the object bound to `name` inside fn, following calls to same-module helpers that receive it as an argument"""
    out = {n.attr for n in ast.walk(fn) if isinstance(n, ast.Attribute) and isinstance(n.value, ast.Name) and n.value.id == name}
    if depth <= 0 or module_tree is None:
        return out
    for c in ast.walk(fn):
        if isinstance(c, ast.Call) and isinstance(c.func, ast.Name):
            fdef = helper_def(c, module_tree, fn)
            if fdef is None or fdef is fn:
                continue
            m = helper_bindings(c, fdef)
            if m is None:
                continue
            for p, a in m.items():
                if isinstance(a, ast.Name) and a.id == name:
                    out |= attrs_read_of(fdef, p, module_tree, depth - 1)
    return out


def inline_accumulator_helpers(fn, module_tree):
    """
    copy of fn in which calls to same-module helpers of the accumulator shape
        def h(p..): acc = <const>; <statements updating acc>; return acc
    are expanded at statement level:   T |= h(a..)  ->  <statements with acc := T>
                                       X = C | h(a..) / X = h(a..)  ->  acc = C|<const>; <statements>; X = acc
    (the inverse of an "extract method" refactoring; used for shape recognition only)
    """
    fn = copy.deepcopy(fn)

    def shape(fdef):
        body = strip_doc(fdef.body)
        if len(body) < 2 or not isinstance(body[-1], ast.Return) or not isinstance(body[-1].value, ast.Name):
            return None
        acc = body[-1].value.id
        init = body[0]
        if not (isinstance(init, ast.Assign) and len(init.targets) == 1 and isinstance(init.targets[0], ast.Name) and init.targets[0].id == acc and
                isinstance(init.value, ast.Constant)):
            return None
        if any(isinstance(n, ast.Return) for s in body[1:-1] for n in ast.walk(s)):
            return None
        return acc, init.value, body[1:-1]

    def expand(call, mode, target, extra):
        fdef = helper_def(call, module_tree)
        if fdef is None:
            return None
        m = helper_bindings(call, fdef)
        sh = shape(fdef)
        if m is None or sh is None:
            return None
        acc, init, stmts = sh
        if mode == 'or-into' and not (isinstance(init.value, int) and init.value == 0):
            return None
        name_map = dict(m)
        if mode == 'or-into':
            name_map[acc] = target
        out = []

        class S(ast.NodeTransformer):
            def visit_Name(self, node):
                if node.id in name_map:
                    rep = copy.deepcopy(name_map[node.id])
                    if isinstance(rep, ast.Name):
                        rep.ctx = node.ctx
                    elif not isinstance(node.ctx, ast.Load):
                        return node
                    return rep
                return node
        if mode == 'assign':
            start = init if extra is None else ast.BinOp(left=extra, op=ast.BitOr(), right=init) if init.value else extra
            out.append(ast.Assign(targets=[ast.Name(id=acc, ctx=ast.Store())], value=copy.deepcopy(start), lineno=call.lineno))
        for s in stmts:
            out.append(S().visit(copy.deepcopy(s)))
        if mode == 'assign':
            out.append(ast.Assign(targets=[copy.deepcopy(target)], value=ast.Name(id=acc, ctx=ast.Load()), lineno=call.lineno))
        for o in out:
            ast.copy_location(o, call)
            ast.fix_missing_locations(o)
        return out

    def rewrite(body):
        new = []
        for st in body:
            for fld in ('body', 'orelse', 'finalbody'):
                sub = getattr(st, fld, None)
                if isinstance(sub, list) and sub and isinstance(sub[0], ast.stmt):
                    setattr(st, fld, rewrite(sub))
            if isinstance(st, ast.Try):
                for h in st.handlers:
                    h.body = rewrite(h.body)
            rep = None
            if isinstance(st, ast.AugAssign) and isinstance(st.op, ast.BitOr) and isinstance(st.target, ast.Name) and isinstance(st.value, ast.Call):
                rep = expand(st.value, 'or-into', ast.Name(id=st.target.id, ctx=ast.Load()), None)
            elif isinstance(st, ast.Assign) and len(st.targets) == 1:
                v = st.value
                if isinstance(v, ast.Call):
                    rep = expand(v, 'assign', st.targets[0], None)
                elif isinstance(v, ast.BinOp) and isinstance(v.op, ast.BitOr):
                    if isinstance(v.right, ast.Call) and not isinstance(v.left, ast.Call):
                        rep = expand(v.right, 'assign', st.targets[0], v.left)
                    elif isinstance(v.left, ast.Call) and not isinstance(v.right, ast.Call):
                        rep = expand(v.left, 'assign', st.targets[0], v.right)
            new += rep if rep is not None else [st]
        return new
    fn.body = rewrite(fn.body)
    return fn
