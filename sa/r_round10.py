# -*- coding: utf-8 -*-
"""rules added after the tenth round of independent seeded changes"""
import ast
import re
from .core import AnalysisError
from .astutil import src, reach_conditions, enclosing_map, expand_locals

MAPPING = 'chython.files._mapping'
RINGS = 'chython.algorithms.rings'
MOL = 'chython.files.mdl.mol'
STD = 'chython.algorithms.standardize.molecule'
DSMI = 'chython.files.daylight.smiles'
MFP = 'chython.algorithms.fingerprints.morgan'
RDK = 'chython.utils.rdkit'
UNPACK = 'chython/containers/_unpack_v0v2.pyx'


def _outcomes(stmts, is_append):
    """path walk of a loop body -> set of (how the iteration ends, number of appends on that path capped at 2)"""
    res = set()
    state = {0}
    for st in stmts:
        if isinstance(st, ast.If):
            b = _outcomes(st.body, is_append)
            o = _outcomes(st.orelse, is_append) if st.orelse else {('fall', 0)}
            nxt = set()
            for kind, k in b | o:
                for s0 in state:
                    if kind == 'fall':
                        nxt.add(min(2, s0 + k))
                    else:
                        res.add((kind, min(2, s0 + k)))
            state = nxt
            if not state:
                return res
        elif isinstance(st, (ast.Break, ast.Continue, ast.Raise, ast.Return)):
            kind = type(st).__name__.lower()
            for s0 in state:
                res.add((kind, s0))
            return res
        elif is_append(st):
            state = {min(2, s0 + 1) for s0 in state}
    for s0 in state:
        res.add(('fall', s0))
    return res


def rule_positional_mapping_list(ck, repo, R):
    ck.rule(R, 'postprocess_parsed_reaction collects ONE entry per atom into the flat per-role list (it is sliced back per molecule by position): every path through the '
               'per-atom body appends exactly once or raises')
    f = repo.module(MAPPING).functions.get('postprocess_parsed_reaction')
    ck.require(f is not None, 'postprocess_parsed_reaction not found')
    loops = [n for n in ast.walk(f.node) if isinstance(n, ast.For) and "['atoms']" in src(n.iter)]
    ck.require(len(loops) >= 1, 'postprocess_parsed_reaction: per-atom loop not found')
    l = loops[0]
    apps = {src(x.func.value) for x in ast.walk(l) if isinstance(x, ast.Call) and isinstance(x.func, ast.Attribute) and x.func.attr == 'append' and isinstance(x.func.value, ast.Name)}
    parents = enclosing_map(f.node)
    outer = parents.get(l)
    while outer is not None and not isinstance(outer, ast.For):
        outer = parents.get(outer)
    cands = [a for a in apps if outer is not None and a in {x.id for x in ast.walk(outer.target) if isinstance(x, ast.Name)} | apps and a != 'log']
    target = None
    for a in sorted(apps):
        o2 = parents.get(l)
        while o2 is not None:
            if isinstance(o2, ast.For) and a in {x.id for x in ast.walk(o2.target) if isinstance(x, ast.Name)}:
                target = a
            o2 = parents.get(o2)
    ck.require(target is not None, 'postprocess_parsed_reaction: positional list not identified')

    def is_app(st):
        return isinstance(st, ast.Expr) and isinstance(st.value, ast.Call) and src(st.value.func) == f'{target}.append'
    out = _outcomes(l.body, is_app)
    bad = sorted((k, n) for k, n in out if k != 'raise' and n != 1)
    ck.decide(not bad, R, 'one-entry-per-atom', sorted(out),
              f'postprocess_parsed_reaction: a path through the per-atom loop ends as {bad} (kind, entries appended to `{target}`): the list is positional, a missing or extra '
              f'entry shifts the map numbers of every later atom of the role', file=f.file, line=l.lineno, func=f.qualname)


def rule_shared_bond_threshold(ck, repo, R):
    ck.rule(R, '_is_condensed_ring: "two rings are neighbours" means they share at least one bond = more than one atom; every such test of the function '
               '(`len(A.keys() & B.keys()) > K`) uses the same K = 1')
    f = repo.module(RINGS).functions.get('_is_condensed_ring')
    ck.require(f is not None, '_is_condensed_ring not found')
    ks = []
    for n in ast.walk(f.node):
        if isinstance(n, ast.Compare) and len(n.ops) == 1 and isinstance(n.left, ast.Call) and src(n.left.func) == 'len' and '.keys() &' in src(n.left) \
                and isinstance(n.comparators[0], ast.Constant):
            k = n.comparators[0].value
            eff = k if isinstance(n.ops[0], ast.Gt) else k - 1 if isinstance(n.ops[0], ast.GtE) else None
            ks.append((n, eff))
    ck.require(len(ks) >= 2, f'_is_condensed_ring: shared-atoms tests not recognised ({len(ks)})')
    for n, eff in ks:
        ck.decide(eff == 1, R, f'test:{src(n.left)[:50]}', src(n),
                  f'_is_condensed_ring tests `{src(n)}`: rings sharing exactly one bond (two atoms) are no longer neighbours here while the sibling test keeps them: a ring that '
                  f'is the sum of such neighbours enters the basis (dependent set on cages)', file=f.file, line=n.lineno, func=f.qualname, construct=src(n))


def rule_one_based_bound(ck, repo, R):
    ck.rule(R, 'parse_mol_v2000: atom numbers of M  ISO / RAD / CHG lines are 1-based block positions: the range test admits exactly 1..len(atoms) (evaluated for a block '
               'of three atoms)')
    from .r_query import _ev, _Unknown
    f = repo.module(MOL).functions.get('parse_mol_v2000')
    ck.require(f is not None, 'parse_mol_v2000 not found')
    n = 0
    for r in ast.walk(f.node):
        if isinstance(r, ast.Raise) and r.exc is not None and 'invalid atoms number' in src(r.exc):
            counts = {a.targets[0].id for a in ast.walk(f.node) if isinstance(a, ast.Assign) and isinstance(a.targets[0], ast.Name) and src(a.value) == 'len(atoms)'}
            conds = [c for c in reach_conditions(r, f.node) if 'len(atoms)' in src(c) or any(isinstance(x, ast.Name) and (x.id in ('atom', 'number') or x.id in counts) for x in ast.walk(c))]
            conds = [c for c in conds if 'startswith' not in src(c)]
            if not conds:
                continue
            names = {x.id for c in conds for x in ast.walk(c) if isinstance(x, ast.Name)} - {'atoms', 'len'} - counts
            if len(names) != 1:
                continue
            v = names.pop()
            n += 1
            got = {}
            for k in range(-1, 6):
                try:
                    got[k] = all(bool(_ev(c, dict({v: k, 'atoms': [0, 0, 0]}, **{x: 3 for x in counts}))) for c in conds)
                except _Unknown as e:
                    raise AnalysisError(f'parse_mol_v2000: range test not evaluable ({e})')
            want = {k: not (1 <= k <= 3) for k in range(-1, 6)}
            want[-1] = got[-1]  # negative numbers: either behaviour is tolerated (python indexing from the end / rejected)
            ck.decide(got == want, R, f'range:{" and ".join(src(c) for c in conds)}', got,
                      f'parse_mol_v2000 rejects atom numbers {sorted(k for k, x in got.items() if x)} of a 3-atom block (expected 0, 4, 5): the property line of the last atom '
                      f'is refused and the record is skipped', file=f.file, line=r.lineno, func=f.qualname)
    ck.require(n >= 1, 'parse_mol_v2000: range test of property lines not recognised')


def rule_charge_rollback_threshold(ck, repo, R):
    ck.rule(R, 'Standardize.__standardize rolls a rule back only when the patched charge leaves the supported range (+5 and above): +4 is a legal result the metal rules reach')
    from .r_query import _ev, _Unknown
    c = repo.cls(f'{STD}:Standardize')
    f = c.method('__standardize') if c else None
    ck.require(f is not None, 'Standardize.__standardize not found')
    tests = [n for n in ast.walk(f.node) if isinstance(n, ast.If) and any(isinstance(x, ast.Compare) and src(x.left).endswith('.charge') for x in ast.walk(n.test))
             and any(isinstance(b, ast.Break) for b in n.body)]
    ck.require(len(tests) == 1, f'__standardize: charge roll-back test not recognised ({len(tests)})')
    t = tests[0].test
    cmp_ = [x for x in ast.walk(t) if isinstance(x, ast.Compare) and src(x.left).endswith('.charge')][0]
    try:
        got = {k: bool(_ev(t, {src(cmp_.left): k})) for k in (3, 4, 5)}
    except _Unknown as e:
        raise AnalysisError(f'__standardize: roll-back test not evaluable ({e})')
    ck.decide(got == {3: False, 4: False, 5: True}, R, 'threshold', got,
              f'__standardize rolls back when `{src(t)}`: {got} for charges 3 / 4 / 5; a rule that brings a metal to exactly +4 (four cyanides on Ti) is skipped and the complex '
              f'stays half converted', file=f.file, line=t.lineno, func=f.qualname, construct=src(t))


def rule_fragment_index_bound(ck, repo, R):
    ck.rule(R, 'smiles(): fragment indices of the CX `f:` block are 0-based over all written components: a block is out of range only when its largest index reaches the '
               'component count (index count-1 is the last component)')
    from .r_query import _ev, _Unknown
    f = repo.func(f'{DSMI}:smiles')
    ck.require(f is not None, 'daylight smiles() not found')
    tests = [n for n in ast.walk(f.node) if isinstance(n, ast.Compare) and isinstance(n.left, ast.Call) and src(n.left.func) == 'max' and 'contract' in src(n.left)]
    # the element-wise spelling: any(x >= count for group in contract for x in group)
    for n in ast.walk(f.node):
        if isinstance(n, ast.Call) and src(n.func) == 'any' and n.args and isinstance(n.args[0], ast.GeneratorExp) and 'contract' in src(n.args[0].generators[0].iter) \
                and isinstance(n.args[0].elt, ast.Compare) and isinstance(n.args[0].elt.left, ast.Name):
            tests.append(n.args[0].elt)
    ck.require(len(tests) >= 1, 'smiles(): range test of the fragment block not recognised')
    for t in tests:
        names = [x.id for x in ast.walk(t.comparators[0]) if isinstance(x, ast.Name)]
        ck.require(len(names) == 1, f'smiles(): bound `{src(t.comparators[0])}` not understood')
        try:
            got = {k: bool(_ev(t, {src(t.left): k, names[0]: 3})) for k in (1, 2, 3)}
        except _Unknown as e:
            raise AnalysisError(f'smiles(): fragment range test not evaluable ({e})')
        ck.decide(got == {1: False, 2: False, 3: True}, R, f'bound:{src(t)[:60]}', got,
                  f'smiles() treats the fragment block as out of range when `{src(t)}`: {got} for the largest index 1 / 2 / 3 of three components; index 2 is the last '
                  f'component, so a reaction whose last written molecule is a salt loses its grouping', file=f.file, line=t.lineno, func=f.qualname, construct=src(t))


def rule_morgan_window_radius(ck, repo, R):
    ck.rule(R, 'morgan_hash_smiles: _morgan_hash_dict(min_radius, max_radius) returns the layers of radius min_radius..max_radius only, so the neighbourhood drawn for layer '
               'i of that list has depth (min_radius - 1) + i: the loop counter starts at min_radius - 1')
    f = repo.func(f'{MFP}:MorganFingerprint.morgan_hash_smiles')
    ck.require(f is not None, 'morgan_hash_smiles not found')
    loops = [n for n in ast.walk(f.node) if isinstance(n, ast.For) and '_morgan_hash_dict(' in src(n.iter)]
    ck.require(len(loops) == 1, 'morgan_hash_smiles: layer loop not recognised')
    l = loops[0]
    it = l.iter
    deep = [k.value for c in ast.walk(l) if isinstance(c, ast.Call) and src(c.func).endswith('augmented_substructure') for k in c.keywords if k.arg == 'deep']
    ck.require(len(deep) == 1, 'morgan_hash_smiles: depth of the drawn neighbourhood not found')
    ok = False
    if isinstance(it, ast.Call) and src(it.func) == 'enumerate' and isinstance(l.target, ast.Tuple):
        start = it.args[1] if len(it.args) > 1 else next((k.value for k in it.keywords if k.arg == 'start'), None)
        counter = src(l.target.elts[0])
        d = src(expand_locals(deep[0], f.node))
        s = src(start) if start is not None else '0'
        ok = (d == counter and s in ('min_radius - 1', '-1 + min_radius')) or (s == '0' and d in (f'{counter} + min_radius - 1', f'min_radius - 1 + {counter}', f'min_radius + {counter} - 1')) \
            or (s == 'min_radius' and d == f'{counter} - 1')
    ck.decide(ok, R, 'depth-offset', (src(it), src(deep[0])),
              f'morgan_hash_smiles draws layer i of `{src(it)}` with depth `{src(deep[0])}`: for min_radius > 1 the first layer returned has radius min_radius, so every '
              f'identifier is described by a neighbourhood that is min_radius - 1 shells too small', file=f.file, line=l.lineno, func=f.qualname)


def rule_first_conformer_is_2d(ck, repo, R):
    ck.rule(R, 'to_rdkit_molecule adds the 2D layout (atom.x, atom.y) as the FIRST conformer: from_rdkit_molecule reads the 2D coordinates from conformer 0')
    m = repo.module(RDK)
    f = m.functions.get('to_rdkit_molecule')
    g = m.functions.get('from_rdkit_molecule')
    ck.require(f is not None and g is not None, 'rdkit bridge functions not found')
    adds = [n for n in ast.walk(f.node) if isinstance(n, ast.Call) and src(n.func).endswith('.AddConformer')]
    ck.require(len(adds) >= 2, 'to_rdkit_molecule: conformer exports not recognised')
    adds.sort(key=lambda n: (n.lineno, n.col_offset))
    parents = enclosing_map(f.node)

    def is_3d_loop(call):
        p = parents.get(call)
        while p is not None:
            if isinstance(p, ast.For) and '_conformers' in src(p.iter):
                return True
            p = parents.get(p)
        return False
    first_is_2d = not is_3d_loop(adds[0])
    reads0 = 'cs[0]' in src(g.node) or 'GetConformer(0)' in src(g.node) or 'GetConformers()[0]' in src(g.node)
    ck.decide(first_is_2d or not reads0, R, 'order', [is_3d_loop(a) for a in adds],
              'to_rdkit_molecule exports the 3D conformers before the 2D layout while from_rdkit_molecule takes the 2D coordinates from conformer 0: a round trip of a molecule '
              'with conformers overwrites atom.xy with the x, y of its first 3D conformer', file=f.file, line=adds[0].lineno, func=f.qualname)


def rule_pack_length_before_cursor(ck, repo, R):
    ck.rule(R, '_unpack_v0v2.pyx unpack(): the returned pack length `size` is computed from cis_trans_shift BEFORE the decoding loop advances that variable as a cursor')
    from .tables import pyx_source, strip_comments
    text = strip_comments(pyx_source(repo.root, UNPACK))
    m = re.search(r'\n(def|cpdef) unpack\(', text)
    ck.require(m is not None, 'unpack() not found in _unpack_v0v2.pyx')
    body = text[m.start():]
    a = re.search(r'\n\s*size = cis_trans_shift \+ (?:4 \* cis_trans_count|cis_trans_count \* 4)', body)
    b = re.search(r'\n\s*cis_trans_shift \+= 4', body)
    ck.require(b is not None, 'unpack(): cis/trans cursor not recognised')
    ck.require(a is not None or re.search(r'size = ', body) is not None, 'unpack(): pack length not computed')
    if a is None:
        raise AnalysisError('unpack(): form of the pack length not recognised')
    ck.decide(a.start() < b.start(), R, 'order', None,
              'unpack() computes `size = cis_trans_shift + 4 * cis_trans_count` after the loop that advanced cis_trans_shift by 4 per record: the reported length is too large by '
              '4 * count and the next molecule of a reaction pack is decoded from the wrong offset', file=UNPACK)


def rule_shallow_copy_of_cached_nested(ck, repo, R):
    ck.rule(R, 'a cached dict of sets / lists copied with .copy() (shallow) shares its inner containers with the cache: the copy is not mutated through a subscript '
               '(`c[k].discard(x)`, `c[k].add(x)`, `c[k].append(x)` ...) - lint over the whole package')
    n = 0
    muts = ('add', 'discard', 'remove', 'append', 'extend', 'update', 'pop', 'clear', 'insert', 'difference_update', 'intersection_update')
    nested = set()
    for m in repo.modules.values():
        for c in m.classes.values():
            for name, fs in c.methods.items():
                for fn in fs:
                    if fn.cache_kind in ('cached_property', 'class_cached_property') and fn.node.returns is not None:
                        r = src(fn.node.returns)
                        if re.match(r"Dict\[.*(Set|List|Dict)\[", r):
                            nested.add(name)
    for m in repo.modules.values():
        for fn in ast.walk(m.tree):
            if not isinstance(fn, (ast.FunctionDef,)):
                continue
            shallow = {}
            for st in ast.walk(fn):
                if isinstance(st, ast.Assign) and isinstance(st.targets[0], ast.Name) and isinstance(st.value, ast.Call) and isinstance(st.value.func, ast.Attribute) \
                        and st.value.func.attr == 'copy' and not st.value.args and isinstance(st.value.func.value, ast.Attribute) \
                        and isinstance(st.value.func.value.value, ast.Name) and st.value.func.value.value.id == 'self' and st.value.func.value.attr in nested:
                    shallow[st.targets[0].id] = st
            if not shallow:
                continue
            for c in ast.walk(fn):
                if isinstance(c, ast.Call) and isinstance(c.func, ast.Attribute) and c.func.attr in muts and isinstance(c.func.value, ast.Subscript) \
                        and isinstance(c.func.value.value, ast.Name) and c.func.value.value.id in shallow:
                    n += 1
                    st = shallow[c.func.value.value.id]
                    ck.bad(R, f'{m.name}:{fn.name}:{src(st.value)}', f'{fn.name}: `{src(st)}` is a shallow copy of a cached dict of containers, and `{src(c)[:70]}` then edits an inner '
                           f'container that the cache still holds: the cached value changes under its readers (first read differs from later reads)',
                           file=m.relpath, line=c.lineno, func=fn.name, construct=src(c)[:100])
    ck.count(f'{R}: cached nested containers', len(nested))
    ck.ok(R, 'sites', f'{len(nested)} cached dict-of-container properties; {n} mutations of a shallow copy')
    ck.require(len(nested) >= 5, f'{R}: {len(nested)} cached dict-of-container properties found, 5 confirmed by hand')


def rule_target_numbers_on_target(ck, repo, R):
    ck.rule(R, 'QueryIsomorphism.get_mapping, stereo filters: inside a loop over the QUERY atoms / bonds, the target molecule is addressed (other.atom(..), other.bond(..)) '
               'only with images (names assigned from mapping[...] in that loop), never with the query numbers the loop runs over')
    f = repo.func('chython.algorithms.isomorphism:QueryIsomorphism.get_mapping')
    ck.require(f is not None, 'QueryIsomorphism.get_mapping not found')
    n = 0
    for l in ast.walk(f.node):
        if not (isinstance(l, ast.For) and ('self.atoms()' in src(expand_locals(l.iter, f.node)) or 'self.bonds()' in src(expand_locals(l.iter, f.node)))):
            continue
        q = {x.id for x in ast.walk(l.target) if isinstance(x, ast.Name)}
        t = set()
        for st in ast.walk(l):
            if isinstance(st, ast.Assign) and 'mapping[' in src(st.value):
                for tg in st.targets:
                    t |= {x.id for x in ast.walk(tg) if isinstance(x, ast.Name)}
        for c in ast.walk(l):
            if isinstance(c, ast.Call) and src(c.func) in ('other.atom', 'other.bond'):
                for a in c.args:
                    if isinstance(a, ast.Name):
                        n += 1
                        ck.decide(not (a.id in q and a.id not in t), R, f'{src(c)}', None,
                                  f'get_mapping addresses the target with `{src(c)}` where `{a.id}` is a number of the QUERY (loop `for {src(l.target)} in {src(l.iter)}`), not its '
                                  f'image: the stereo filter reads an unrelated target atom (embeddings dropped or KeyError, depending on numbering)',
                                  file=f.file, line=c.lineno, func=f.qualname, construct=src(c))
    ck.require(n >= 2, f'{R}: {n} target accesses found, 2 confirmed by hand')
