# -*- coding: utf-8 -*-
"""rules added after the ninth round of independent seeded changes"""
import ast
from .core import AnalysisError
from .astutil import src, reach_conditions, enclosing_map, expand_locals

ELT = 'chython.periodictable.base.element'
DSMI = 'chython.files.daylight.smiles'
KEK = 'chython.algorithms.aromatics.kekule'
ISO = 'chython.algorithms.isomorphism'
TOK = 'chython.files.daylight.tokenize'
ST = 'chython.algorithms.stereo'
READ = 'chython.files.mdl.read'
GRAPH = 'chython.containers.graph'
STD = 'chython.algorithms.standardize.molecule'
RXN = 'chython.containers.reaction'
MFP = 'chython.algorithms.fingerprints.morgan'
RINGS = 'chython.algorithms.rings'


def _self_attrs(node):
    return {x.attr for x in ast.walk(node) if isinstance(x, ast.Attribute) and isinstance(x.value, ast.Name) and x.value.id == 'self'}


# C01 -----------------------------------------------------------------------------------------------------------------------------------
MORGAN_SEED_FIELDS = ('isotope', 'atomic_number', 'charge', 'is_radical', 'implicit_hydrogens', 'in_ring')


def rule_morgan_seed_fields(ck, repo, R):
    ck.rule(R, 'hash(atom) is the seed invariant of the Morgan refinement (its only consumer): it covers every atom attribute two different molecules can differ in '
               f'while their bond skeleton is the same: {", ".join(MORGAN_SEED_FIELDS)} (aromatic bonds all have order 4, so the hydrogen count of n vs [nH] is not '
               'recoverable from the neighbourhood)')
    f = repo.func(f'{ELT}:Element.__hash__')
    ck.require(f is not None, 'Element.__hash__ not found')
    got = _self_attrs(f.node)
    missing = [a for a in MORGAN_SEED_FIELDS if a not in got and f'_{a}' not in got]
    ck.decide(not missing, R, 'Element.__hash__', sorted(got),
              f'Element.__hash__ no longer hashes {missing}: atoms that differ only in these get one Morgan class, ties are broken by atom number and the canonical string '
              f'depends on numbering (imidazole, pyrazole, ...)', file=f.file, line=f.lineno, func=f.qualname)


# C02 / C12 -----------------------------------------------------------------------------------------------------------------------------
def rule_reader_full_neighbour_list(ck, repo, R):
    ck.rule(R, 'postprocess_molecule hands the FULL written-order neighbour list of a tetrahedral centre (order[n]) to add_atom_stereo: the sign translation needs the '
               'text position of an explicit hydrogen; a filtered list silently moves it to the end')
    f = repo.func(f'{DSMI}:postprocess_molecule')
    ck.require(f is not None, 'postprocess_molecule not found')
    sites = []
    for n in ast.walk(f.node):
        if isinstance(n, ast.Tuple) and n.elts and src(n.elts[0]).endswith('.add_atom_stereo') and len(n.elts) == 4:
            sites.append((n, n.elts[2]))
        elif isinstance(n, ast.Call) and src(n.func).endswith('.add_atom_stereo') and len(n.args) >= 3:
            sites.append((n, n.args[1]))
    ck.require(sites, 'postprocess_molecule: add_atom_stereo sites not found')
    n_tet = 0
    for node, env in sites:
        e = expand_locals(env, f.node)
        s = src(e)
        if isinstance(e, ast.Subscript) and not isinstance(e.slice, ast.Slice):
            n_tet += 1
            ck.ok(R, f'env:{s}', 'full list')
        elif isinstance(e, (ast.ListComp, ast.GeneratorExp)) and any(g.ifs for g in e.generators) and len(e.generators) == 1 and isinstance(e.generators[0].iter, ast.Subscript):
            n_tet += 1
            ck.bad(R, f'env:{s[:60]}', f'postprocess_molecule passes `{s[:90]}` as the neighbour list of a tetrahedral centre: a filtered copy loses the written position of an '
                   f'explicit hydrogen ([2H][C@](N)(C)O reads as the mirror image)', file=f.file, line=node.lineno, func=f.qualname, construct=s[:100])
    ck.require(n_tet >= 1, 'postprocess_molecule: tetrahedral add_atom_stereo site not recognised')


# C05 -----------------------------------------------------------------------------------------------------------------------------------
def rule_emptied_lists_filtered(ck, repo, R):
    ck.rule(R, 'Kekule.__prepare_rings removes partners from the lists of `double_bonded` while repairing mis-drawn rings, so a key may be left with an EMPTY list: the '
               'set of exocyclic-double-bonded atoms derived from it keeps only keys whose list is non-empty')
    c = repo.cls(f'{KEK}:Kekule')
    f = c.method('__prepare_rings') if c else None
    ck.require(f is not None, 'Kekule.__prepare_rings not found')
    names = {'double_bonded'} | {n.targets[0].id for n in ast.walk(f.node) if isinstance(n, ast.Assign) and isinstance(n.targets[0], ast.Name) and src(n.value) == 'double_bonded'}
    removed = any(isinstance(n, ast.Call) and isinstance(n.func, ast.Attribute) and n.func.attr in ('remove', 'pop', 'discard') and isinstance(n.func.value, ast.Subscript)
                  and src(n.func.value.value) in names for n in ast.walk(f.node))
    ck.require(removed, '__prepare_rings: the repair loop no longer removes partners from double_bonded (rule outdated)')
    defs = [n for n in ast.walk(f.node) if isinstance(n, ast.Assign) and src(n.targets[0]) == 'double_bonded' and 'double_bonded' in src(n.value)]
    ck.require(len(defs) == 1, f'__prepare_rings: derivation of the double-bonded atom set not recognised ({len(defs)})')
    v = defs[0].value
    ok = False
    if isinstance(v, (ast.SetComp, ast.ListComp, ast.GeneratorExp)) or (isinstance(v, ast.Call) and v.args and isinstance(v.args[0], (ast.SetComp, ast.ListComp, ast.GeneratorExp))):
        comp = v if not isinstance(v, ast.Call) else v.args[0]
        g = comp.generators[0]
        if isinstance(g.target, ast.Tuple) and len(g.target.elts) == 2 and src(g.iter) == 'double_bonded.items()':
            val = src(g.target.elts[1])
            conds = []
            for i in g.ifs:
                conds += [src(x) for x in (i.values if isinstance(i, ast.BoolOp) and isinstance(i.op, ast.And) else [i])]
            ok = val in conds or f'len({val})' in conds or f'len({val}) > 0' in conds or f'bool({val})' in conds
    ck.decide(ok, R, 'nonempty-filter', src(v),
              f'__prepare_rings derives the exocyclic-double-bond atoms as `{src(v)}`: keys whose partner list was emptied by the repair loop (c1ccc=cc1) are kept, both atoms '
              f'are treated as quinone-like and benzene kekulises to a cyclohexadiene', file=f.file, line=defs[0].lineno, func=f.qualname, construct=src(v))


# C07 -----------------------------------------------------------------------------------------------------------------------------------
def rule_scope_abandons_permutation(ck, repo, R):
    ck.rule(R, 'Isomorphism._get_mapping, several components: when a component candidate has no atom inside the search scope the whole permutation is abandoned (break out '
               'of the for-else that collects one matcher per component); skipping just that component would combine fewer matchers than the pattern has components')
    f = repo.func(f'{ISO}:Isomorphism._get_mapping')
    ck.require(f is not None, 'Isomorphism._get_mapping not found')
    loops = [n for n in ast.walk(f.node) if isinstance(n, ast.For) and 'zip(' in src(n.iter) and any('append' in src(x) for x in n.body)]
    ck.require(len(loops) == 1, f'_get_mapping: collecting loop not recognised ({len(loops)})')
    l = loops[0]
    parents = enclosing_map(f.node)
    if not l.orelse:
        # flag form of the for-else: every break is preceded by `flag = True` and the loop is followed by `if flag: continue`
        blk = None
        for field in ('body', 'orelse'):
            b = getattr(parents[l], field, None)
            if isinstance(b, list) and l in b:
                blk = b
        nxt = blk[blk.index(l) + 1] if blk is not None and blk.index(l) + 1 < len(blk) else None
        flag = src(nxt.test) if isinstance(nxt, ast.If) and isinstance(nxt.test, ast.Name) and len(nxt.body) == 1 and isinstance(nxt.body[0], ast.Continue) else None
        ck.require(flag is not None, '_get_mapping: collecting loop has neither an else branch nor a flag test after it')
        for br in [x for x in ast.walk(l) if isinstance(x, ast.Break)]:
            pb = None
            for field in ('body', 'orelse'):
                b = getattr(parents[br], field, None)
                if isinstance(b, list) and br in b:
                    pb = b
            i = pb.index(br)
            ck.decide(i > 0 and src(pb[i - 1]) == f'{flag} = True', R, f'flag-before-break:{br.lineno}', None,
                      f'_get_mapping: the loop is left by break without setting `{flag}`: the permutation is not abandoned', file=f.file, line=br.lineno, func=f.qualname)
    app = [x for x in ast.walk(l) if isinstance(x, ast.Call) and isinstance(x.func, ast.Attribute) and x.func.attr == 'append' and x in [c for b in l.body for c in ast.walk(b)]]
    ck.require(app, '_get_mapping: matcher append not found')
    # every path through the body either appends or breaks
    def walk(stmts):
        """-> set of outcomes of the body: 'append', 'break', 'skip' (reaches the end / continue without appending)"""
        out = {'fall'}
        res = set()
        state = {False}  # appended?
        for st in stmts:
            if isinstance(st, ast.If):
                b = walk(st.body)
                o = walk(st.orelse) if st.orelse else {('fall', False)}
                nxt = set()
                for kind, ap in b | o:
                    for s0 in state:
                        if kind == 'fall':
                            nxt.add(s0 or ap)
                        else:
                            res.add((kind, s0 or ap))
                state = nxt
                if not state:
                    return res
            elif isinstance(st, ast.Break):
                for s0 in state:
                    res.add(('break', s0))
                return res
            elif isinstance(st, ast.Continue):
                for s0 in state:
                    res.add(('continue', s0))
                return res
            elif any(isinstance(x, ast.Call) and isinstance(x.func, ast.Attribute) and x.func.attr == 'append' for x in ast.walk(st)):
                state = {True}
        for s0 in state:
            res.add(('fall', s0))
        return res
    outcomes = walk(l.body)
    bad = sorted(k for k, ap in outcomes if k in ('continue', 'fall') and not ap)
    ck.decide(not bad, R, 'every-iteration-appends-or-breaks', sorted(outcomes),
              f'_get_mapping: an iteration of the collecting loop can end ({bad}) without adding a matcher and without abandoning the permutation: lazy_product then combines '
              f'fewer components than the pattern has and partial mappings are yielded', file=f.file, line=l.lineno, func=f.qualname)


# C08 -----------------------------------------------------------------------------------------------------------------------------------
def rule_or_list_one_primitive(ck, repo, R):
    ck.rule(R, '_query_parse: a comma list inside one primitive block is filed under the letter of its FIRST member and `x[1:]` strips the first character of every member, '
               'so a list mixing letters (D1,h3) must be rejected before the numbers are read: a raise of IncorrectSmarts guarded by a test on the set of first letters')
    f = repo.func(f'{TOK}:_query_parse')
    ck.require(f is not None, '_query_parse not found')
    strip = [n for n in ast.walk(f.node) if isinstance(n, (ast.ListComp, ast.GeneratorExp)) and isinstance(n.elt, ast.Call) and src(n.elt.func) == 'int' and '[1:]' in src(n.elt)]
    ck.require(strip, '_query_parse: numeric conversion of the list members not found (rule outdated)')
    ok = False
    for n in ast.walk(f.node):
        if isinstance(n, ast.Raise) and n.exc is not None and 'IncorrectSmarts' in src(n.exc) and n.lineno < strip[0].lineno:
            conds = ' and '.join(src(c) for c in reach_conditions(n, f.node))
            if '[0]' in conds and ('len({' in conds or 'len(set(' in conds or 'any(' in conds or 'all(' in conds) and 'for' in conds:
                ok = True
    ck.decide(ok, R, 'mixed-letters-rejected', None,
              '_query_parse no longer rejects an OR list that mixes primitive letters before stripping the first character of each member: [C;D1,h3] is read as D1,D3',
              file=f.file, line=strip[0].lineno, func=f.qualname)


# C10 / C12 -----------------------------------------------------------------------------------------------------------------------------
def rule_cis_trans_terminal_keys(ck, repo, R):
    ck.rule(R, '_stereo_cis_trans_terminals maps BOTH terminal atoms and BOTH central atoms of an even cumulene path to the terminal pair: the keys assigned are positions '
               '{0, L-1, L/2-1, L/2} for L = 2, 4, 6 (key expressions evaluated on positions)')
    from .r_query import _ev, _Unknown
    f = repo.func(f'{ST}:MoleculeStereo._stereo_cis_trans_terminals')
    ck.require(f is not None, '_stereo_cis_trans_terminals not found')
    loops = [n for n in ast.walk(f.node) if isinstance(n, ast.For)]
    ck.require(len(loops) == 1 and isinstance(loops[0].target, ast.Name), '_stereo_cis_trans_terminals: loop not recognised')
    l = loops[0]
    path = l.target.id
    for L in (2, 4, 6):
        env = {path: tuple(range(L))}
        keys = set()
        try:
            for st in l.body:
                if isinstance(st, ast.If) and isinstance(st.body[-1], ast.Continue) and not st.orelse:
                    if _ev(st.test, env):
                        raise AnalysisError(f'_stereo_cis_trans_terminals: even path of length {L} skipped')
                    continue
                if isinstance(st, ast.Assign):
                    tg = st.targets
                    if all(isinstance(t, ast.Subscript) and src(t.value) == 'terminals' for t in tg):
                        for t in tg:
                            try:
                                keys.add(_ev(t.slice, env))
                            except _Unknown:
                                keys.add(f'{src(t.slice)}: out of range')
                        continue
                    if len(tg) == 1 and isinstance(tg[0], ast.Tuple) and isinstance(st.value, ast.Tuple):
                        for a, b in zip(tg[0].elts, st.value.elts):
                            env[a.id] = _ev(b, env)
                        continue
                    if len(tg) == 1 and isinstance(tg[0], ast.Name):
                        env[tg[0].id] = _ev(st.value, env)
                        continue
                raise AnalysisError(f'_stereo_cis_trans_terminals: statement `{src(st)}` not understood')
        except _Unknown as e:
            raise AnalysisError(f'_stereo_cis_trans_terminals: not evaluable ({e})')
        want = {0, L - 1, L // 2 - 1, L // 2}
        ck.decide(keys == want, R, f'L={L}', sorted(keys, key=str),
                  f'_stereo_cis_trans_terminals: for a path of {L} atoms the keys are positions {sorted(keys, key=str)}, expected {sorted(want)}: a central atom of a butatriene / '
                  f'hexapentaene is missing, packing and SMILES of a labelled cumulene raise KeyError', file=f.file, line=l.lineno, func=f.qualname)


# C11 -----------------------------------------------------------------------------------------------------------------------------------
def rule_slice_shortcut(ck, repo, R):
    ck.rule(R, 'MDLRead.__getitem__, slice branch: an early `return []` is taken only when range(start, stop, step) is empty (evaluated over every (start, stop, step) that '
               'slice.indices can produce for a file of 5 records, negative steps included)')
    from .r_query import _ev, _Unknown
    f = repo.func(f'{READ}:MDLRead.__getitem__')
    ck.require(f is not None, 'MDLRead.__getitem__ not found')
    rets = [n for n in ast.walk(f.node) if isinstance(n, ast.Return) and n.value is not None and src(n.value) in ('[]', 'list()')]
    n_dec = 0
    for r in rets:
        conds = [c for c in reach_conditions(r, f.node) if any(isinstance(x, ast.Name) and x.id in ('start', 'stop', 'step') for x in ast.walk(c))]
        if not conds:
            continue
        n_dec += 1
        bad = []
        for step in (1, 2, -1, -2):
            for a in range(-1, 6):
                for b in range(-1, 6):
                    try:
                        hit = all(_ev(c, {'start': a, 'stop': b, 'step': step}) for c in conds)
                    except _Unknown as e:
                        raise AnalysisError(f'__getitem__: shortcut condition not evaluable ({e})')
                    if hit and len(range(a, b, step)):
                        bad.append((a, b, step))
        ck.decide(not bad, R, f'shortcut:{" and ".join(src(c) for c in conds)}', None,
                  f'MDLRead.__getitem__ returns [] when `{" and ".join(src(c) for c in conds)}`, which also holds for non-empty ranges such as (start, stop, step) = {bad[:3]}: '
                  f'negative-step slices (rd[::-1]) silently return nothing', file=f.file, line=r.lineno, func=f.qualname)
    ck.count(f'{R}: shortcuts', n_dec)


# C12 -----------------------------------------------------------------------------------------------------------------------------------
def rule_prune_condition(ck, repo, R):
    ck.rule(R, '__chiral_centers prunes a node of the ring-stereo graph iff it has no partner at all, or exactly one partner and is not stereogenic on its own (truth table '
               'over partner count 0/1/2 x own stereogenicity)')
    from .r_query import _ev, _Unknown
    c = repo.cls(f'{ST}:MoleculeStereo')
    f = c.method('__chiral_centers') if c else None
    ck.require(f is not None, '__chiral_centers not found')
    gens = [g for n in ast.walk(f.node) if isinstance(n, ast.GeneratorExp) for g in n.generators if src(g.iter) == 'graph.items()' and g.ifs]
    ck.require(len(gens) == 1 and isinstance(gens[0].target, ast.Tuple), '__chiral_centers: pruning condition not recognised')
    g = gens[0]
    node, ms = (x.id for x in g.target.elts)
    bad = []
    for k in (0, 1, 2):
        for own in (True, False):
            env = {ms: set(range(100, 100 + k)), node: 1, 'stereogenic': {1} if own else set()}
            try:
                got = all(bool(_ev(i, env)) for i in g.ifs)
            except _Unknown as e:
                raise AnalysisError(f'__chiral_centers: pruning condition not evaluable ({e})')
            want = k == 0 or (k == 1 and not own)
            if got != want:
                bad.append((k, own, got))
    ck.decide(not bad, R, 'truth-table', None,
              f'__chiral_centers prunes with `{" and ".join(src(i) for i in g.ifs)}`: wrong for (partners, stereogenic itself, pruned) = {bad}: an isolated ring centre is kept '
              f'and reported chiral (dicyclohexylmethane gets stereo labels)', file=f.file, line=g.ifs[0].lineno, func=f.qualname)


# C13 -----------------------------------------------------------------------------------------------------------------------------------
def rule_back_connection_guard(ck, repo, R):
    ck.rule(R, 'copy loops that store ONE bond object under both directions: the branch that reuses the partner entry `X[m][n]` is guarded by membership of m in that same '
               'outer mapping X (not in the row being filled, where it is never true)')
    n = 0
    for fq in (f'{GRAPH}:Graph.copy', 'chython.containers.cgr:CGRContainer.substructure', 'chython.containers.molecule:MoleculeContainer.substructure',
               'chython.containers.query:QueryContainer.copy', 'chython.containers.molecule:MoleculeContainer.copy', 'chython.containers.cgr:CGRContainer.copy'):
        try:
            f = repo.func(fq)
        except AnalysisError:
            f = None
        if f is None:
            continue
        for node in ast.walk(f.node):
            if not isinstance(node, ast.If) or not isinstance(node.test, ast.Compare) or len(node.test.ops) != 1 or not isinstance(node.test.ops[0], (ast.In, ast.NotIn)):
                continue
            key, cont = node.test.left, node.test.comparators[0]
            branch = node.body if isinstance(node.test.ops[0], ast.In) else node.orelse
            reuse = [a for st in branch for a in ast.walk(st) if isinstance(a, ast.Assign) and isinstance(a.value, ast.Subscript) and isinstance(a.value.value, ast.Subscript)
                     and src(a.value.value.slice) == src(key) and isinstance(a.targets[0], ast.Subscript) and src(a.targets[0].slice) == src(key)]
            for a in reuse:
                n += 1
                outer = a.value.value.value
                ck.decide(src(outer) == src(cont), R, f'{f.qualname}:{src(a)}', src(node.test),
                          f'{f.qualname}: the back-connection `{src(a)}` is guarded by `{src(node.test)}`; the partner entry lives in `{src(outer)}`, and `{src(cont)}` never '
                          f'contains it: every bond of the copy becomes two independent objects, in-place bond edits change one direction only',
                          file=f.file, line=node.lineno, func=f.qualname, construct=src(node.test))
    ck.count(f'{R}: back-connections', n)
    ck.require(n >= 1, f'{R}: no back-connection site found')


# C14 -----------------------------------------------------------------------------------------------------------------------------------
def rule_radical_patch_tristate(ck, repo, R):
    ck.rule(R, 'the atom patches of the standardisation rules are (charge difference, radical state) with radical state None = keep, False = clear, True = set: the patch '
               'is applied under `is not None`, not under a truth test (which would never clear a radical)')
    c = repo.cls(f'{STD}:Standardize')
    f = c.method('__standardize') if c else None
    ck.require(f is not None, 'Standardize.__standardize not found')
    sets = [n for n in ast.walk(f.node) if isinstance(n, ast.Assign) and src(n.targets[0]).endswith('._is_radical') and isinstance(n.value, ast.Name)]
    ck.require(len(sets) >= 1, '__standardize: radical patch not found')
    for a in sets:
        v = a.value.id
        conds = [src(x) for x in reach_conditions(a, f.node) if v in {y.id for y in ast.walk(x) if isinstance(y, ast.Name)}]
        ok = f'{v} is not None' in conds or f'{v} != None' in conds
        truthy = v in conds
        ck.decide(ok and not truthy, R, f'patch:{src(a)}', conds,
                  f'__standardize applies the radical state `{v}` under {conds}: the state False (clear the radical: ozone, nitroxyl, carbonyl rules) is skipped while the '
                  f'charge and bond patches of the same rule are applied', file=f.file, line=a.lineno, func=f.qualname, construct=src(a))


# C15 -----------------------------------------------------------------------------------------------------------------------------------
def rule_positional_radical_list(ck, repo, R):
    ck.rule(R, 'ReactionContainer.__format__: `radicals` is a positional list over ALL atoms of the written string (its enumerate index is the CX index), so it is extended '
               'for every molecule that is written, under exactly the conditions under which the molecule string is appended')
    f = repo.func(f'{RXN}:ReactionContainer.__format__')
    ck.require(f is not None, 'ReactionContainer.__format__ not found')
    ext = [n for n in ast.walk(f.node) if isinstance(n, ast.Expr) and isinstance(n.value, ast.Call) and src(n.value.func) in ('radicals.extend', 'radicals.append')]
    app = [n for n in ast.walk(f.node) if isinstance(n, ast.Expr) and isinstance(n.value, ast.Call) and src(n.value.func) == 'ss.append']
    ck.require(len(ext) == 1 and len(app) == 1, f'__format__: radical / string accumulation not recognised ({len(ext)}, {len(app)})')
    parents = enclosing_map(f.node)
    ce = sorted(src(c) for c in reach_conditions(ext[0], f.node, parents))
    ca = sorted(src(c) for c in reach_conditions(app[0], f.node, parents))
    ck.decide(ce == ca, R, 'same-conditions', (ce, ca),
              f'__format__ extends the positional radical list under {ce} but appends the molecule string under {ca}: atoms of a skipped molecule get no slot and every later '
              f'^1: index is shifted', file=f.file, line=ext[0].lineno, func=f.qualname, construct=src(ext[0]))
    # the extension covers every written atom
    arg = ext[0].value.args[0]
    if src(ext[0].value.func) == 'radicals.append':  # one append per atom inside a loop: the reach conditions above already cover a conditional skip
        return
    ck.decide(isinstance(arg, (ast.GeneratorExp, ast.ListComp)) and not arg.generators[0].ifs, R, 'every-atom', src(arg),
              f'__format__: the radical list is extended by `{src(arg)}`, which is not one entry per written atom', file=f.file, line=ext[0].lineno, func=f.qualname)


# C17 -----------------------------------------------------------------------------------------------------------------------------------
def rule_morgan_layers_fresh(ck, repo, R):
    ck.rule(R, 'MorganFingerprint._morgan_hash_dict: every atom gets a FRESH identifier hash((previous, ...)) in every layer (also an atom without neighbours): the radius '
               'window `out[-k:]` and the union of layers rely on it')
    f = repo.func(f'{MFP}:MorganFingerprint._morgan_hash_dict')
    ck.require(f is not None, '_morgan_hash_dict not found')
    loops = [n for n in ast.walk(f.node) if isinstance(n, ast.For)]
    upd = []
    for l in loops:
        for n in ast.walk(l):
            if isinstance(n, ast.Assign) and src(n.targets[0]) == 'identifiers' and isinstance(n.value, ast.DictComp):
                upd.append(n.value.value)
            elif isinstance(n, ast.Assign) and isinstance(n.targets[0], ast.Subscript) and 'hash(' in src(n.value) and isinstance(n.targets[0].value, ast.Name):
                upd.append(n.value)
    ck.require(upd, '_morgan_hash_dict: identifier update not recognised')
    for v in upd:
        ok = isinstance(v, ast.Call) and src(v.func) == 'hash'
        ck.decide(ok, R, f'update:{src(v)[:50]}', None,
                  f'_morgan_hash_dict computes the next identifier as `{src(v)[:110]}`: not a fresh hash for every atom, so an isolated atom (counter-ion, water) repeats its '
                  f'identifier across radii and the requested radius window is wrong', file=f.file, line=v.lineno, func=f.qualname, construct=src(v)[:100])


# C06 -----------------------------------------------------------------------------------------------------------------------------------
def rule_scissors_pairing(ck, repo, R):
    ck.rule(R, 'two ring fragments are glued into one contour as (*_ring_scissors(A, n, m), *_ring_scissors(B, m, n)[1:-1]): the second cut runs from the END atom of the '
               'first back to its start; the same endpoint order on both sides reverses the private atoms of the second ring and the contour is no cycle')
    n = 0
    m = repo.module(RINGS)
    for fn in m.functions.values():
        for t in ast.walk(fn.node):
            if not isinstance(t, ast.Tuple):
                continue
            cuts = []
            for e in t.elts:
                v = expand_locals(e.value, fn.node) if isinstance(e, ast.Starred) else None
                if isinstance(v, ast.Subscript):
                    v = v.value
                if isinstance(v, ast.Call) and src(v.func) == '_ring_scissors' and len(v.args) == 3:
                    cuts.append(v)
            if len(cuts) == 2:
                n += 1
                a, b = cuts
                ok = (src(a.args[1]), src(a.args[2])) == (src(b.args[2]), src(b.args[1]))
                ck.decide(ok, R, f'{fn.name}:{src(a.args[0])[:30]}|{src(b.args[0])[:30]}', (src(a), src(b)),
                          f'{fn.name}: contour glued from `{src(a)[:80]}` and `{src(b)[:80]}`: the second cut must run ({src(a.args[2])}, {src(a.args[1])}); a ring that is the sum '
                          f'of two accepted rings is not recognised and enters the basis (dependent ring set)', file=m.relpath, line=t.lineno, func=fn.name, construct=src(b)[:100])
    ck.count(f'{R}: glued contours', n)
    ck.require(n >= 3, f'{R}: {n} glue sites found, 3 confirmed by hand')


# generic lint H15 -----------------------------------------------------------------------------------------------------------------------
def rule_strip_charset(ck, repo, R, modules=None):
    ck.rule(R, 'str.strip / lstrip / rstrip take a SET of characters: called with a multi-character literal they are almost always meant to remove a prefix or suffix and '
               'eat further characters of the payload (lint H15, whole package)')
    n = 0
    for m in repo.modules.values():
        for c in ast.walk(m.tree):
            if isinstance(c, ast.Call) and isinstance(c.func, ast.Attribute) and c.func.attr in ('lstrip', 'rstrip', 'strip') and len(c.args) == 1 \
                    and isinstance(c.args[0], ast.Constant) and isinstance(c.args[0].value, str):
                n += 1
                s = c.args[0].value
                ck.decide(len(s) <= 1 or len(set(s)) != len(s) or not s.isalnum(), R, f'{m.name}:{src(c)[:60]}', s,
                          f'{m.name}: `{src(c)[:90]}` strips the character set {sorted(set(s))}, not the prefix/suffix {s!r}: names beginning (ending) with one of these characters '
                          f'lose more than intended (DynamicDy -> "")', file=m.relpath, line=c.lineno, construct=src(c)[:100])
    ck.count(f'{R}: strip calls with a literal', n)


# C11 -----------------------------------------------------------------------------------------------------------------------------------
def rule_index_lands_on_header(ck, repo, R):
    ck.rule(R, 'RDFRead: reset_index records the byte positions of the `$RFMT` / `$MFMT` lines, so seek(k) puts the file ON the header line of record k, whereas sequential '
               'reading arrives just AFTER it (the header was consumed as the terminator of the previous record). _read_block therefore leaves its loop at a header line '
               'only when it has already collected lines of the record; a header met with an empty buffer is the record\'s own')
    c = repo.cls('chython.files.RDFrw:RDFRead')
    ck.require(c is not None, 'RDFRead not found')
    ri, rb = c.method('reset_index'), c.method('_read_block')
    ck.require(ri is not None and rb is not None, 'RDFRead.reset_index / _read_block not found')
    pats = [n.value for n in ast.walk(ri.node) if isinstance(n, ast.Constant) and isinstance(n.value, str) and 'FMT' in n.value]
    ck.require(pats, 'reset_index: grep pattern of the record headers not found')
    loops = [n for n in ast.walk(rb.node) if isinstance(n, ast.For) and 'self._file' in src(n.iter)]
    ck.require(len(loops) == 1, '_read_block: reading loop not recognised')
    parents = enclosing_map(rb.node)
    n = 0
    for br in [x for x in ast.walk(loops[0]) if isinstance(x, ast.Break)]:
        conds = reach_conditions(br, rb.node, parents)
        cs = [src(x) for x in conds]
        if not any('FMT' in x and 'startswith' in x for x in cs):
            continue
        n += 1
        ok = any(x in ('buffer', 'len(buffer)', 'len(buffer) > 0', 'self._buffer') for x in cs)
        ck.decide(ok, R, 'break-needs-lines', cs,
                  f'RDFRead._read_block ends the record at a header line under {cs} even when nothing was collected: after seek(k > 0) the first line read IS the header of '
                  f'record k, the block is empty and EOFError is raised (rd[1] fails, rd[::-1] returns [])', file=rb.file, line=br.lineno, func=rb.qualname)
    ck.require(n >= 1, '_read_block: terminator arm not recognised')
